#!/usr/bin/env python3
"""tools/mkmut.py PROP name file old new [file old new ...]
Create mutants/PROP/name.patch by textual replacement in a scratch copy of /repo/src."""
import os, shutil, subprocess, sys, tempfile
prop, name, rest = sys.argv[1], sys.argv[2], sys.argv[3:]
assert len(rest) % 3 == 0 and rest
verif = os.path.dirname(os.path.dirname(os.path.abspath(__file__)))
d = tempfile.mkdtemp(prefix="mkmut-")
try:
    shutil.copytree("/repo/src", os.path.join(d, "a", "src"), ignore=shutil.ignore_patterns("__pycache__", "*.egg-info"))
    shutil.copytree(os.path.join(d, "a", "src"), os.path.join(d, "b", "src"))
    for i in range(0, len(rest), 3):
        f, old, new = rest[i:i + 3]
        old = old.encode().decode("unicode_escape"); new = new.encode().decode("unicode_escape")
        p = os.path.join(d, "b", "src", "asphalt", "core", f)
        s = open(p).read()
        assert s.count(old) == 1, f"pattern occurs {s.count(old)} times in {f}: {old!r}"
        open(p, "w").write(s.replace(old, new))
    out = subprocess.run(["diff", "-ruN", "a/src", "b/src"], cwd=d, capture_output=True, text=True).stdout
    assert out
    os.makedirs(os.path.join(verif, "mutants", prop), exist_ok=True)
    open(os.path.join(verif, "mutants", prop, name + ".patch"), "w").write(out)
    print(out)
finally:
    shutil.rmtree(d)
