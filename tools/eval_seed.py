#!/venv/bin/python
"""tools/eval_seed.py PROP VARIANT [--checks C01,C13] : confirm a seeded change produced by a sub-agent in
/tmp/seed/PROP/out/VARIANT (tests pass with it, demo fails with / passes without), run the property's quick
check against it, and store everything under /verif/seeded/PROP_VARIANT/."""
import json, os, shutil, subprocess, sys, time
VERIF = os.path.dirname(os.path.dirname(os.path.abspath(__file__)))
prop, var = sys.argv[1], sys.argv[2]
checks = [prop]
if "--checks" in sys.argv:
    checks = sys.argv[sys.argv.index("--checks") + 1].split(",")
wt = os.environ.get("SEED_ROOT", "/tmp/seed") + f"/{prop}"
src = f"{wt}/out/{var}"
DESELECT = ["tests/test_cli.py::test_run_bad_override", "tests/test_cli.py::test_run_bad_path",
            "tests/test_cli.py::test_run_missing_root_component_config", "tests/test_cli.py::test_run_missing_root_component_type"]
def sh(cmd, **kw):
    return subprocess.run(cmd, capture_output=True, text=True, **kw)
env = dict(os.environ, PYTHONPATH=f"{wt}/src", PYTHONDONTWRITEBYTECODE="1")
meta = {"property": prop, "variant": var, "ran": []}
sh(["git", "-C", wt, "checkout", "--", "."])
r = sh(["timeout", "120", "/venv/bin/python", f"{src}/demo.py"], env=env, cwd=wt)
meta["demo_without"] = r.returncode
r = sh(["git", "-C", wt, "apply", f"{src}/patch.diff"])
if r.returncode != 0:
    print("patch does not apply:", r.stderr); sys.exit(2)
try:
    cmd = ["timeout", "900", "/venv/bin/python", "-m", "pytest", "-q", "-p", "no:cacheprovider", "tests"] + sum([["--deselect", d] for d in DESELECT], [])
    r = sh(cmd, env=env, cwd=wt)
    meta["tests_exit"] = r.returncode
    meta["tests_tail"] = r.stdout.strip().splitlines()[-1] if r.stdout.strip() else ""
    r = sh(["timeout", "120", "/venv/bin/python", f"{src}/demo.py"], env=env, cwd=wt)
    meta["demo_with"] = r.returncode
    meta["demo_output_with"] = (r.stdout + r.stderr)[-600:]
    meta["confirmed"] = meta["tests_exit"] == 0 and meta["demo_with"] != 0 and meta["demo_without"] == 0
    env2 = dict(os.environ, VERIF_REPO_SRC=f"{wt}/src")
    env2.pop("PYTHONPATH", None)
    meta["checks"] = {}
    for c in checks:
        t0 = time.time()
        r = sh(["timeout", "900", os.path.join(VERIF, "check"), c, "--no-evidence"], env=env2, cwd=VERIF)
        det = [l.strip()[:400] for l in r.stdout.splitlines() if l.startswith("  [")]
        meta["checks"][c] = {"exit": r.returncode, "detail": det[:3], "s": round(time.time() - t0, 1),
                             "stderr": r.stderr.strip()[-300:] if r.returncode not in (0, 1) else ""}
        meta["ran"].append(f"VERIF_REPO_SRC={wt}/src ./check {c}")
    meta["detected_by"] = [c for c, v in meta["checks"].items() if v["exit"] == 1]
finally:
    sh(["git", "-C", wt, "checkout", "--", "."])
dst = os.path.join(VERIF, "seeded", f"{prop}_{os.environ.get('SEED_TAG', '')}{var}")
os.makedirs(dst, exist_ok=True)
for f in ("patch.diff", "demo.py", "notes.md"):
    if os.path.exists(f"{src}/{f}"):
        shutil.copy(f"{src}/{f}", dst)
notes = open(f"{src}/notes.md").read() if os.path.exists(f"{src}/notes.md") else ""
meta["needs_to_manifest"] = "see notes.md"
meta["ran"] = [f"git apply patch.diff (in a scratch worktree of /repo at {sh(['git','-C',wt,'rev-parse','--short','HEAD']).stdout.strip()})",
               "pytest tests (287 must pass)", "demo.py with and without the patch"] + meta["ran"]
json.dump(meta, open(os.path.join(dst, "meta.json"), "w"), indent=1)
print(prop, var, "confirmed" if meta.get("confirmed") else "NOT-CONFIRMED", "tests:", meta.get("tests_tail"), "demo with/without:", meta.get("demo_with"), meta.get("demo_without"),
      "detected_by:", meta.get("detected_by"), {c: (v["exit"], v["detail"][:1]) for c, v in meta.get("checks", {}).items()})
