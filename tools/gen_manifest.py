#!/venv/bin/python
"""Regenerate MANIFEST.json from harness/props.py + tools/manifest_texts.json."""
import json, os, sys
VERIF = os.path.dirname(os.path.dirname(os.path.abspath(__file__)))
sys.path.insert(0, VERIF)
from harness.props import PROPS
texts = json.load(open(os.path.join(VERIF, "tools", "manifest_texts.json")))
all_ids = [json.loads(l)["id"] for l in open(os.path.join(VERIF, "properties.jsonl"))]
checks = []
for pid in all_ids:
    if pid not in PROPS or pid not in texts["checks"]:
        continue
    t = texts["checks"][pid]
    checks.append({
        "property_id": pid,
        "quick_cmd": f"./check {pid} --tier quick",
        "thorough_cmd": f"./check {pid} --tier thorough",
        "evidence_file": f"evidence/{pid}.json",
        "replay_cmd_template": f"./check {pid} --replay {{path}}",
        "engine": PROPS[pid].engine.rsplit(".", 1)[-1],
        "level_claimed": {"category": "exploration", "text": t["level_text"], "design_ref": t.get("design_ref", f"DESIGN.md section 4, {pid}")},
        "level_note": t["level_note"],
        "technique": t["technique"],
    })
engines = {}
for pid, spec in PROPS.items():
    if pid in texts["checks"]:
        engines.setdefault(spec.engine, []).append(pid)
man = {
    "version": 1,
    "setup_cmd": "./setup.sh",
    "hooks": {
        "guard": "ASPHALT_VERIF",
        "enable": "no hooks: every property is observed through the public API plus anyio/trio test-facing options; checks import /repo/src directly",
        "baseline_off_cmd": "cd /repo && /venv/bin/python -m pytest -ra -q -p no:cacheprovider --timeout=900 --continue-on-collection-errors",
        "source_commits": [],
        "add_only": True,
    },
    "engines": [{"name": e.rsplit(".", 1)[-1], "path": "harness/engines/" + e.rsplit(".", 1)[-1] + ".py",
                 "serves_properties": sorted(p), "kind_free_text": texts["engines"].get(e.rsplit(".", 1)[-1], "")} for e, p in sorted(engines.items())],
    "checks": checks,
    "notes": texts["notes"],
    "not_applicable": [{"property_id": p, "reason": texts["not_applicable"].get(p, "check not built yet in this tree; no claim is made")}
                       for p in all_ids if p not in [c["property_id"] for c in checks]],
}
json.dump(man, open(os.path.join(VERIF, "MANIFEST.json"), "w"), indent=1)
print(len(checks), "checks;", len(man["not_applicable"]), "not claimed")
