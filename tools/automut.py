#!/venv/bin/python
"""Automatic mutation screening of src/asphalt/core (sensitivity of the checks, section 10 of DESIGN.md).

Every syntactic site of a small operator set (comparison swaps, `is None` -> truthiness, and/or, forced
branches, statement deletion, constants, dropped keyword arguments, unwrapped copies, removed `with`
blocks, re-raising handlers) gives one mutant.  Each mutant is written to a scratch copy of /repo
(never to /repo), the repository's own tests run there, and - only if they still pass - the quick
checks of the properties anchored in the mutated function run in screening mode (VERIF_SCREEN: stop
at the first violation, no shrinking) until one of them reports a violation.

usage: tools/automut.py list                         # number of mutants per file/operator
       tools/automut.py run [--jobs 4] [--files _context.py ...] [--limit N] [--only ID ...]
       tools/automut.py report                       # mutants/auto/SUMMARY.md from results.jsonl
       tools/automut.py show ID                      # unified diff of one mutant

Results are appended to mutants/auto/results.jsonl (a run resumes where it stopped).
"""

from __future__ import annotations

import argparse
import ast
import concurrent.futures
import copy
import difflib
import json
import os
import shutil
import subprocess
import sys
import tempfile
import time
from typing import Any

VERIF = os.path.dirname(os.path.dirname(os.path.abspath(__file__)))
SRC = "/repo/src/asphalt/core"
FILES = ["_context.py", "_component.py", "_event.py", "_concurrent.py", "_runner.py", "_cli.py", "_utils.py"]
OUT = os.path.join(VERIF, "mutants", "auto")
ALWAYS_FAIL = [
    "tests/test_cli.py::test_run_bad_override",
    "tests/test_cli.py::test_run_bad_path",
    "tests/test_cli.py::test_run_missing_root_component_config",
    "tests/test_cli.py::test_run_missing_root_component_type",
]


# ---- which checks look at which function ------------------------------------------------
def props_for(file: str, func: str) -> list[str]:
    f = func or ""
    if file == "_cli.py":
        return ["C16"]
    if file == "_runner.py":
        return ["C15"]
    if file == "_concurrent.py":
        return ["C09", "C08"]
    if file == "_event.py":
        return ["C10", "C11", "C18", "C06"]
    if file == "_utils.py":
        if f.startswith("merge_config"):
            return ["C17", "C14", "C16"]
        if f.startswith("callable_name"):
            return ["C08", "C09", "C01"]
        if f.startswith("coalesce_exceptions"):
            return ["C07", "C15", "C05"]
        if f.startswith("format_component_name"):
            return ["C07", "C05"]
        if f.startswith("qualified_name"):
            return ["C03", "C14", "C19"]
        return ["C14", "C16"]
    if file == "_component.py":
        if f.startswith("ComponentContext.add_resource") or f.startswith("ComponentContext._format"):
            return ["C18", "C03", "C02", "C14", "C05"]
        if f.startswith("ComponentContext.get_resources"):
            return ["C02", "C04"]
        if f.startswith("ComponentContext.get_resource"):
            return ["C06", "C02", "C19", "C04"]
        if f.startswith("ComponentContext.add_teardown_callback"):
            return ["C01", "C15", "C05"]
        if f.startswith("ComponentContext.start_background_task_factory"):
            return ["C09"]
        if f.startswith("ComponentContext.start_service_task"):
            return ["C08", "C07"]
        if f.startswith("ComponentContext"):
            return ["C12", "C02", "C05", "C18"]
        if f.startswith("Component") or f.startswith("CLIApplicationComponent"):
            return ["C14", "C05", "C15"]
        if f.startswith("start_component") or f.startswith("_init_component"):
            return ["C14", "C05", "C07", "C15"]
        if f.startswith("_start_component"):
            return ["C05", "C06", "C07", "C12", "C14"]
        return ["C07", "C05", "C06"]
    if file == "_context.py":
        if f.startswith("Context.__init__") or f.startswith("Context.parent"):
            return ["C12", "C02", "C13", "C11"]
        if f.startswith("Context.closed") or f.startswith("Context._ensure_state"):
            return ["C13", "C01", "C02"]
        if f.startswith("Context._run_teardown_callbacks") or f.startswith("Context.add_teardown_callback"):
            return ["C01", "C13", "C15", "C08"]
        if f.startswith("Context.__aenter__") or f.startswith("Context.__aexit__"):
            return ["C13", "C12", "C01", "C02"]
        if f.startswith("Context.add_resource_factory"):
            return ["C03", "C04", "C18", "C02"]
        if f.startswith("Context.add_resource"):
            return ["C03", "C18", "C02", "C01", "C06"]
        if f.startswith("Context.get_resources"):
            return ["C02", "C04"]
        if f.startswith("Context.get_resource_nowait"):
            return ["C04", "C02", "C03", "C18", "C19"]
        if f.startswith("Context.get_resource"):
            return ["C04", "C06", "C02", "C18", "C19"]
        if f.startswith("Context.start_background_task_factory") or f.startswith("start_background_task_factory"):
            return ["C09"]
        if f.startswith("Context.start_service_task") or f.startswith("start_service_task"):
            return ["C08"]
        if f.startswith("context_teardown"):
            return ["C01"]
        if f.startswith("current_context"):
            return ["C12", "C13", "C02"]
        if f.startswith("add_resource"):
            return ["C02", "C03", "C18"]
        if f.startswith("add_teardown_callback"):
            return ["C01", "C15"]
        if f.startswith("get_resource"):
            return ["C02", "C19", "C04", "C06"]
        if f.startswith("_Dependency") or f.startswith("resource") or f.startswith("inject"):
            return ["C19"]
        return ["C02", "C13", "C19"]
    return []


BROAD = {
    "_context.py": ["C01", "C13", "C02", "C03", "C04", "C18", "C12", "C08", "C09", "C06", "C05", "C15", "C19"],
    "_component.py": ["C05", "C06", "C07", "C14", "C01", "C08", "C09", "C12", "C02", "C18", "C15", "C19"],
    "_event.py": ["C10", "C11", "C18", "C06"],
    "_concurrent.py": ["C09", "C08", "C15"],
    "_runner.py": ["C15", "C16"],
    "_cli.py": ["C16"],
    "_utils.py": ["C17", "C14", "C16", "C01", "C07", "C08", "C09", "C15", "C05"],
}


# ---- mutation operators -------------------------------------------------------------------
NEGATE = {ast.Is: ast.IsNot, ast.IsNot: ast.Is, ast.Eq: ast.NotEq, ast.NotEq: ast.Eq, ast.In: ast.NotIn, ast.NotIn: ast.In,
          ast.Lt: ast.GtE, ast.GtE: ast.Lt, ast.Gt: ast.LtE, ast.LtE: ast.Gt}
BOUNDARY = {ast.Lt: ast.LtE, ast.LtE: ast.Lt, ast.Gt: ast.GtE, ast.GtE: ast.Gt}
UNWRAP = {"reversed", "list", "tuple", "sorted", "dict", "set", "frozenset", "copy", "deepcopy"}
SKIP_FUNCS = {"__repr__", "__str__"}


def _is_log_call(node: ast.AST) -> bool:
    if isinstance(node, ast.Expr):
        node = node.value
    if isinstance(node, ast.Await):
        node = node.value
    if isinstance(node, ast.Call):
        fn = node.func
        if isinstance(fn, ast.Attribute) and isinstance(fn.value, ast.Name) and fn.value.id in ("logger", "logging"):
            return True
        if isinstance(fn, ast.Name) and fn.id in ("warn", "print"):
            return True
        if isinstance(fn, ast.Attribute) and fn.attr in ("warn", "secho", "echo"):
            return True
    return False


def _is_none(n: ast.AST) -> bool:
    return isinstance(n, ast.Constant) and n.value is None


def enum(tree: ast.Module) -> list[tuple[str, int, str, str, Any]]:
    """-> [(operator, lineno, function qualname, description, apply())] in a deterministic order."""
    out: list = []

    infunc = [0]

    def add(op: str, node: ast.AST, func: str, desc: str, fn: Any) -> None:
        if infunc[0]:  # declarations at module / class level are not mutated
            out.append((op, getattr(node, "lineno", 0), func, desc, fn))

    def src(n: ast.AST) -> str:
        try:
            return ast.unparse(n)[:70]
        except Exception:
            return type(n).__name__

    def visit_expr(node: ast.AST, func: str, setter: Any) -> None:
        """setter(new_node) replaces `node` in its parent."""
        if isinstance(node, ast.Compare) and len(node.ops) == 1:
            op = type(node.ops[0])
            if op in NEGATE:
                add("cmp-negate", node, func, f"{src(node)}: {op.__name__} -> {NEGATE[op].__name__}",
                    lambda node=node, op=op: node.ops.__setitem__(0, NEGATE[op]()))
            if op in BOUNDARY:
                add("cmp-boundary", node, func, f"{src(node)}: {op.__name__} -> {BOUNDARY[op].__name__}",
                    lambda node=node, op=op: node.ops.__setitem__(0, BOUNDARY[op]()))
            if op in (ast.Is, ast.IsNot) and _is_none(node.comparators[0]):
                if op is ast.IsNot:
                    add("truthiness", node, func, f"{src(node)} -> truth value", lambda node=node: setter(node.left))
                else:
                    add("truthiness", node, func, f"{src(node)} -> not <truth value>",
                        lambda node=node: setter(ast.UnaryOp(op=ast.Not(), operand=node.left)))
        elif isinstance(node, ast.BoolOp):
            add("and-or", node, func, f"{src(node)}: {type(node.op).__name__} swapped",
                lambda node=node: setattr(node, "op", ast.Or() if isinstance(node.op, ast.And) else ast.And()))
            for i in range(len(node.values)):
                if len(node.values) >= 2:
                    add("boolop-drop", node, func, f"{src(node)}: operand {i} dropped",
                        lambda node=node, i=i: (node.values.pop(i), setter(node.values[0]) if len(node.values) == 1 else None))
        elif isinstance(node, ast.UnaryOp) and isinstance(node.op, ast.Not):
            add("not-removed", node, func, f"{src(node)}: not removed", lambda node=node: setter(node.operand))
        elif isinstance(node, ast.Constant):
            if node.value is True or node.value is False:
                add("const-bool", node, func, f"{node.value} -> {not node.value}", lambda node=node: setattr(node, "value", not node.value))
            elif isinstance(node.value, (int, float)) and not isinstance(node.value, bool):
                add("const-num", node, func, f"{node.value} -> {node.value + 1}", lambda node=node: setattr(node, "value", node.value + 1))
                if node.value not in (0,):
                    add("const-num", node, func, f"{node.value} -> 0", lambda node=node: setattr(node, "value", 0))
        elif isinstance(node, ast.Call):
            for i, kw in enumerate(node.keywords):
                if kw.arg is not None:
                    add("kwarg-dropped", node, func, f"{src(node)}: keyword {kw.arg} dropped",
                        lambda node=node, kw=kw: node.keywords.remove(kw))
            fn = node.func
            name = fn.id if isinstance(fn, ast.Name) else (fn.attr if isinstance(fn, ast.Attribute) else None)
            if name in UNWRAP and len(node.args) == 1 and not node.keywords:
                add("copy-unwrapped", node, func, f"{src(node)} -> its argument", lambda node=node: setter(node.args[0]))
            if name == "copy" and isinstance(fn, ast.Attribute) and not node.args:
                add("copy-unwrapped", node, func, f"{src(node)} -> the object itself", lambda node=node, fn=fn: setter(fn.value))
            if len(node.args) == 2 and not any(isinstance(a, ast.Starred) for a in node.args):
                add("args-swapped", node, func, f"{src(node)}: positional arguments swapped", lambda node=node: node.args.reverse())
        elif isinstance(node, ast.BinOp) and isinstance(node.op, (ast.Add, ast.Sub)):
            add("plus-minus", node, func, f"{src(node)}: +/- swapped",
                lambda node=node: setattr(node, "op", ast.Sub() if isinstance(node.op, ast.Add) else ast.Add()))
        elif isinstance(node, ast.IfExp):
            add("ifexp-forced", node, func, f"{src(node)} -> body", lambda node=node: setter(node.body))
            add("ifexp-forced", node, func, f"{src(node)} -> orelse", lambda node=node: setter(node.orelse))
        # recurse into sub-expressions
        for field, value in ast.iter_fields(node):
            if field in ("annotation", "returns", "type_comment", "decorator_list"):
                continue
            if isinstance(value, ast.AST):
                if isinstance(value, (ast.expr_context, ast.operator, ast.cmpop, ast.boolop, ast.unaryop)):
                    continue
                if isinstance(value, ast.expr):
                    visit_expr(value, func, lambda new, node=node, field=field: setattr(node, field, new))
                elif isinstance(value, (ast.keyword, ast.comprehension, ast.arguments)):
                    visit_expr(value, func, lambda new: None)
            elif isinstance(value, list):
                for i, item in enumerate(value):
                    if isinstance(item, ast.expr):
                        visit_expr(item, func, lambda new, value=value, i=i: value.__setitem__(i, new))
                    elif isinstance(item, (ast.keyword, ast.comprehension)):
                        visit_expr(item, func, lambda new: None)

    def visit_body(body: list, func: str) -> None:
        for i, stmt in enumerate(body):
            def replace(new: ast.stmt, body: list = body, i: int = i) -> None:
                body[i] = new

            if isinstance(stmt, (ast.FunctionDef, ast.AsyncFunctionDef)):
                if stmt.name in SKIP_FUNCS or any("overload" in ast.unparse(d) for d in stmt.decorator_list):
                    continue
                q = f"{func}.{stmt.name}" if func else stmt.name
                infunc[0] += 1
                for d in stmt.args.defaults + [k for k in stmt.args.kw_defaults if k is not None]:
                    visit_expr(d, q, lambda new: None)
                visit_body(stmt.body, q)
                infunc[0] -= 1
                continue
            if isinstance(stmt, ast.ClassDef):
                visit_body(stmt.body, f"{func}.{stmt.name}" if func else stmt.name)
                continue
            if isinstance(stmt, (ast.Import, ast.ImportFrom, ast.Global, ast.Nonlocal, ast.Pass)):
                continue
            if isinstance(stmt, ast.Expr) and isinstance(stmt.value, ast.Constant) and isinstance(stmt.value.value, str):
                continue  # docstring
            if isinstance(stmt, ast.If):
                t = ast.unparse(stmt.test)
                if "TYPE_CHECKING" in t or "version_info" in t:
                    continue
            if _is_log_call(stmt):
                continue
            # statement-level operators
            if isinstance(stmt, ast.Expr):
                add("stmt-deleted", stmt, func, f"deleted: {src(stmt)}", lambda replace=replace: replace(ast.Pass()))
            elif isinstance(stmt, (ast.Assign, ast.AugAssign)) and func:
                add("stmt-deleted", stmt, func, f"deleted: {src(stmt)}", lambda replace=replace: replace(ast.Pass()))
            elif isinstance(stmt, ast.AnnAssign) and stmt.value is not None and func:
                add("stmt-deleted", stmt, func, f"deleted: {src(stmt)}", lambda replace=replace: replace(ast.Pass()))
            elif isinstance(stmt, ast.Raise):
                add("raise-deleted", stmt, func, f"deleted: {src(stmt)}", lambda replace=replace: replace(ast.Pass()))
            elif isinstance(stmt, ast.Return):
                if stmt.value is not None and not _is_none(stmt.value):
                    add("return-none", stmt, func, f"{src(stmt)} -> return None",
                        lambda stmt=stmt: setattr(stmt, "value", ast.Constant(value=None)))
                add("return-deleted", stmt, func, f"deleted: {src(stmt)}", lambda replace=replace: replace(ast.Pass()))
            elif isinstance(stmt, ast.Delete):
                add("stmt-deleted", stmt, func, f"deleted: {src(stmt)}", lambda replace=replace: replace(ast.Pass()))
            elif isinstance(stmt, ast.Break):
                add("break-continue", stmt, func, "break -> continue", lambda replace=replace: replace(ast.Continue()))
            elif isinstance(stmt, ast.Continue):
                add("break-continue", stmt, func, "continue -> break", lambda replace=replace: replace(ast.Break()))
            if isinstance(stmt, (ast.If, ast.While)):
                if not (isinstance(stmt.test, ast.Constant)):
                    if isinstance(stmt, ast.If):
                        add("branch-forced", stmt, func, f"if {src(stmt.test)}: -> if True:",
                            lambda stmt=stmt: setattr(stmt, "test", ast.Constant(value=True)))
                    add("branch-forced", stmt, func, f"{type(stmt).__name__.lower()} {src(stmt.test)}: -> False",
                        lambda stmt=stmt: setattr(stmt, "test", ast.Constant(value=False)))
                if isinstance(stmt, ast.While):
                    add("while-if", stmt, func, f"while {src(stmt.test)}: -> if",
                        lambda stmt=stmt, replace=replace: replace(ast.If(test=stmt.test, body=stmt.body, orelse=stmt.orelse)))
            if isinstance(stmt, (ast.With, ast.AsyncWith)) and all(it.optional_vars is None for it in stmt.items):
                add("with-removed", stmt, func, f"with {src(stmt.items[0].context_expr)}: block kept, manager removed",
                    lambda stmt=stmt, replace=replace: replace(ast.If(test=ast.Constant(value=True), body=stmt.body, orelse=[])))
            if isinstance(stmt, ast.Try):
                for h in stmt.handlers:
                    if not (len(h.body) == 1 and isinstance(h.body[0], ast.Raise) and h.body[0].exc is None):
                        add("handler-reraises", h, func, f"except {src(h.type) if h.type else ''}: body -> raise",
                            lambda h=h: setattr(h, "body", [ast.Raise(exc=None, cause=None)]))
                if stmt.finalbody:
                    add("finally-dropped", stmt, func, "finally: body dropped",
                        lambda stmt=stmt: setattr(stmt, "finalbody", [ast.Pass()]))
            # expressions inside the statement
            for field, value in ast.iter_fields(stmt):
                if field in ("body", "orelse", "finalbody", "handlers", "annotation", "returns", "decorator_list"):
                    continue
                if isinstance(value, ast.expr):
                    visit_expr(value, func, lambda new, stmt=stmt, field=field: setattr(stmt, field, new))
                elif isinstance(value, list):
                    for k, item in enumerate(value):
                        if isinstance(item, ast.expr):
                            visit_expr(item, func, lambda new, value=value, k=k: value.__setitem__(k, new))
                        elif isinstance(item, ast.withitem):
                            visit_expr(item.context_expr, func, lambda new, item=item: setattr(item, "context_expr", new))
            # nested blocks
            for field in ("body", "orelse", "finalbody"):
                sub = getattr(stmt, field, None)
                if isinstance(sub, list) and sub and isinstance(sub[0], ast.stmt):
                    visit_body(sub, func)
            for h in getattr(stmt, "handlers", []) or []:
                visit_body(h.body, func)
            for c in getattr(stmt, "cases", []) or []:
                visit_body(c.body, func)

    visit_body(tree.body, "")
    return out


def enum_swaps(tree: ast.Module) -> list[tuple[str, int, str, str, Any]]:
    """Second family (ids <file>:s<k>): two adjacent statements of a function body exchanged - "doing B before A",
    moving a statement across an await, registering before checking ..."""
    out: list = []

    def simple(st: ast.stmt) -> bool:
        if isinstance(st, (ast.FunctionDef, ast.AsyncFunctionDef, ast.ClassDef, ast.Import, ast.ImportFrom, ast.Global, ast.Nonlocal,
                           ast.Pass, ast.Return, ast.Raise, ast.Break, ast.Continue)):
            return False
        if isinstance(st, ast.Expr) and isinstance(st.value, ast.Constant):
            return False
        return not _is_log_call(st)

    def visit(body: list, func: str, infunc: bool) -> None:
        for i, st in enumerate(body):
            if isinstance(st, (ast.FunctionDef, ast.AsyncFunctionDef)):
                if st.name in SKIP_FUNCS or any("overload" in ast.unparse(d) for d in st.decorator_list):
                    continue
                visit(st.body, f"{func}.{st.name}" if func else st.name, True)
                continue
            if isinstance(st, ast.ClassDef):
                visit(st.body, f"{func}.{st.name}" if func else st.name, False)
                continue
            if isinstance(st, ast.If) and ("TYPE_CHECKING" in ast.unparse(st.test) or "version_info" in ast.unparse(st.test)):
                continue
            if infunc and i + 1 < len(body) and simple(st) and simple(body[i + 1]):
                a, b = ast.unparse(st).splitlines()[0][:50], ast.unparse(body[i + 1]).splitlines()[0][:50]
                out.append(("stmt-swap", st.lineno, func, f"swapped: `{a}` <-> `{b}`",
                            lambda body=body, i=i: body.__setitem__(slice(i, i + 2), [body[i + 1], body[i]])))
            for field in ("body", "orelse", "finalbody"):
                sub = getattr(st, field, None)
                if isinstance(sub, list) and sub and isinstance(sub[0], ast.stmt):
                    visit(sub, func, infunc)
            for h in getattr(st, "handlers", []) or []:
                visit(h.body, func, infunc)

    visit(tree.body, "", False)
    return out


def all_mutants(files: list[str]) -> list[dict]:
    res = []
    for f in files:
        tree = ast.parse(open(os.path.join(SRC, f)).read())
        for k, (op, line, func, desc, _) in enumerate(enum(tree)):
            res.append({"id": f"{f[:-3]}:{k}", "file": f, "k": k, "op": op, "line": line, "func": func, "desc": desc,
                        "props": props_for(f, func)})
        for k, (op, line, func, desc, _) in enumerate(enum_swaps(ast.parse(open(os.path.join(SRC, f)).read()))):
            res.append({"id": f"{f[:-3]}:s{k}", "file": f, "k": f"s{k}", "op": op, "line": line, "func": func, "desc": desc,
                        "props": props_for(f, func)})
    return res


def mutated_source(file: str, k: Any) -> str:
    text = open(os.path.join(SRC, file)).read()
    tree = ast.parse(text)
    if isinstance(k, str) and k.startswith("s"):
        enum_swaps(tree)[int(k[1:])][4]()
        ast.fix_missing_locations(tree)
        return ast.unparse(tree) + "\n"
    sites = enum(tree)
    sites[k][4]()
    ast.fix_missing_locations(tree)
    return ast.unparse(tree) + "\n"


def baseline_source(file: str) -> str:
    return ast.unparse(ast.parse(open(os.path.join(SRC, file)).read())) + "\n"


# ---- running ---------------------------------------------------------------------------------
def _limits() -> None:
    """A mutant may allocate without bound (a loop that no longer pops): cap the address space."""
    import resource

    resource.setrlimit(resource.RLIMIT_AS, (6 << 30, 6 << 30))


_HEAD: list = []


def repo_head() -> str:
    if not _HEAD:
        _HEAD.append(subprocess.run(["git", "-C", "/repo", "rev-parse", "--short", "HEAD"], capture_output=True, text=True).stdout.strip())
    return _HEAD[0]


def run_one(m: dict) -> dict:
    res = dict(m, repo_head=repo_head())
    scratch = tempfile.mkdtemp(prefix="amut-", dir="/dev/shm" if os.path.isdir("/dev/shm") else None)
    try:
        try:
            new = mutated_source(m["file"], m["k"])
            compile(new, m["file"], "exec")
        except Exception as exc:
            res["status"] = "invalid"
            res["detail"] = f"{type(exc).__name__}: {exc}"[:200]
            return res
        if new == baseline_source(m["file"]):
            res["status"] = "invalid"
            res["detail"] = "no textual change"
            return res
        for sub in ("src", "tests", "pyproject.toml", "README.rst", "LICENSE"):
            s, d = os.path.join("/repo", sub), os.path.join(scratch, sub)
            if os.path.isdir(s):
                shutil.copytree(s, d, ignore=shutil.ignore_patterns("__pycache__", "*.egg-info"))
            else:
                shutil.copy(s, d)
        open(os.path.join(scratch, "src", "asphalt", "core", m["file"]), "w").write(new)
        env = dict(os.environ, PYTHONPATH=os.path.join(scratch, "src"), PYTHONDONTWRITEBYTECODE="1")
        cmd = ["timeout", "-k", "5", "100", "/venv/bin/python", "-m", "pytest", "-q", "-p", "no:cacheprovider", "-x", "--timeout=30", "tests"]
        for t in ALWAYS_FAIL:
            cmd += ["--deselect", t]
        t0 = time.time()
        p = subprocess.run(cmd, cwd=scratch, env=env, capture_output=True, text=True, preexec_fn=_limits)
        res["tests_pass"] = p.returncode == 0
        res["tests_s"] = round(time.time() - t0, 1)
        if not res["tests_pass"]:
            res["status"] = "killed-by-tests"
            return res
        if os.environ.get("AUTOMUT_TESTS_ONLY"):
            res["status"] = "tests-passed"
            return res
        env2 = dict(os.environ, VERIF_REPO_SRC=os.path.join(scratch, "src"))
        env2.pop("PYTHONPATH", None)
        res["checks"] = {}
        res["status"] = "survived"
        for pr in m["props"]:
            flag = os.path.join(scratch, "STOP_" + pr)
            env2["VERIF_SCREEN"] = flag
            t0 = time.time()
            p = subprocess.run(["timeout", "-k", "5", "600", os.path.join(VERIF, "check"), pr, "--no-evidence"], cwd=VERIF, env=env2,
                               capture_output=True, text=True, preexec_fn=_limits)
            det = [l.strip()[:300] for l in p.stdout.splitlines() if l.startswith("  [")][:1]
            res["checks"][pr] = {"exit": p.returncode, "s": round(time.time() - t0, 1), "detail": det,
                                 "err": (p.stdout + p.stderr)[-300:] if p.returncode not in (0, 1) else ""}
            if p.returncode == 1:
                res["status"] = "killed"
                res["killed_by"] = pr
                break
        return res
    except Exception as exc:  # tool problem
        res["status"] = "tool-error"
        res["detail"] = f"{type(exc).__name__}: {exc}"[:300]
        return res
    finally:
        shutil.rmtree(scratch, ignore_errors=True)


def load_results() -> dict[str, dict]:
    p = os.path.join(OUT, "results.jsonl")
    res = {}
    if os.path.exists(p):
        for line in open(p):
            if line.strip():
                r = json.loads(line)
                res[r["id"]] = r
    return res


def main() -> int:
    ap = argparse.ArgumentParser()
    ap.add_argument("cmd", choices=["list", "run", "report", "show"])
    ap.add_argument("ids", nargs="*")
    ap.add_argument("--jobs", type=int, default=4)
    ap.add_argument("--files", nargs="*", default=FILES)
    ap.add_argument("--limit", type=int)
    ap.add_argument("--redo", nargs="*", default=[], help="statuses to run again, e.g. survived")
    ap.add_argument("--broad", action="store_true", help="second pass: survivors without a judgement are run against every "
                    "check anchored in their file, not only those of their function")
    a = ap.parse_args()
    os.makedirs(OUT, exist_ok=True)
    if a.cmd == "show":
        for i in a.ids:
            f, k = i.split(":")
            f += ".py"
            k = k if k.startswith("s") else int(k)
            sys.stdout.writelines(difflib.unified_diff(baseline_source(f).splitlines(True), mutated_source(f, k).splitlines(True),
                                                       "a/" + f, "b/" + f, n=2))
        return 0
    muts = all_mutants(a.files)
    if a.cmd == "list":
        from collections import Counter

        c = Counter((m["file"], m["op"]) for m in muts)
        for key in sorted(c):
            print(f"{key[0]:16s} {key[1]:18s} {c[key]}")
        print("total", len(muts))
        return 0
    if a.cmd == "run":
        done = load_results()
        if a.broad:
            jp = os.path.join(OUT, "judgements.json")
            judged = json.load(open(jp)) if os.path.exists(jp) else {}
            todo = []
            for m in muts:
                r = done.get(m["id"])
                if r and r["status"] == "survived" and m["id"] not in judged and (not a.ids or m["id"] in a.ids):
                    m = dict(m, props=[p for p in BROAD[m["file"]] if True], second_pass=True)
                    todo.append(m)
        else:
            todo = [m for m in muts if (m["id"] not in done or done[m["id"]].get("status") in a.redo) and (not a.ids or m["id"] in a.ids)]
        if a.limit:
            todo = todo[: a.limit]
        print(f"{len(todo)} mutants to run ({len(done)} done before)", flush=True)
        with open(os.path.join(OUT, "results.jsonl"), "a") as out, concurrent.futures.ThreadPoolExecutor(a.jobs) as ex:
            for r in ex.map(run_one, todo):
                out.write(json.dumps(r, sort_keys=True) + "\n")
                out.flush()
                print(r["id"], r["status"], r.get("killed_by", ""), r["func"], "|", r["desc"][:80], flush=True)
        return 0
    if a.cmd == "report":
        from collections import Counter

        done = load_results()
        c = Counter(r["status"] for r in done.values())
        heads = Counter(r.get("repo_head", "526010c") for r in done.values())
        lines = ["# Automatic mutation screening (tools/automut.py)", "",
                 "Mutant ids are positions in the enumeration of the source AS IT WAS at the commit of /repo named in each result row ("
                 + ", ".join(f"{k}: {v} rows" for k, v in sorted(heads.items())) + "); function, line and description are recorded with every row.", "",
                 f"{len(done)} mutants of src/asphalt/core: " + ", ".join(f"{k} {v}" for k, v in sorted(c.items())), "",
                 "`killed` = the repository's tests pass on the mutant and a quick check of a property anchored in the mutated",
                 "function reports a violation; `survived` = tests pass and none of the listed checks objects (see the",
                 "judgement column: most are equivalent, or change only texts / logging / behaviour no listed property is about).", ""]
        byprop = Counter(r.get("killed_by") for r in done.values() if r["status"] == "killed")
        lines += ["Killed, by the first check that objected: " + ", ".join(f"{k} {v}" for k, v in sorted(byprop.items())), ""]
        judge = {}
        jp = os.path.join(OUT, "judgements.json")
        if os.path.exists(jp):
            judge = json.load(open(jp))
        lines += ["## Survivors (tests pass, no check objects)", "", "| id | function | line | change | checks run | judgement |", "|---|---|---|---|---|---|"]
        for r in sorted(done.values(), key=lambda r: (r["file"], str(r["k"]).startswith("s"), int(str(r["k"]).lstrip("s")))):
            if r["status"] == "survived":
                d = r["desc"].replace("|", "\\|")
                lines.append(f"| {r['id']} | {r['func']} | {r['line']} | {d} | {' '.join(r.get('checks', {}))} | {judge.get(r['id'], '')} |")
        open(os.path.join(OUT, "SUMMARY.md"), "w").write("\n".join(lines) + "\n")
        print("\n".join(lines[:8]))
        return 0
    return 0


if __name__ == "__main__":
    sys.exit(main())
