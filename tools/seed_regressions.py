#!/venv/bin/python
"""For every stored seeded change (seeded/*/patch.diff) that the current checks detect: keep the shrunk
killing case as a regression case of the property (regressions/<PROP>/seed_<name>.json), provided it
HOLDS on the real tree.  Regression cases are replayed first in every run, whatever VERIF_SEED is, so the
scenario that exposed the change stays exercised even if the random search of a later run takes another path.

usage: tools/seed_regressions.py [names...]        (env JOBS, default 3)
"""
import concurrent.futures, glob, json, os, shutil, subprocess, sys, tempfile

V = os.path.dirname(os.path.dirname(os.path.abspath(__file__)))


def one(d):
    name = os.path.basename(d)
    meta = json.load(open(os.path.join(d, "meta.json")))
    props = meta.get("detected_by") or [meta["property"]]
    scratch = tempfile.mkdtemp(prefix="seedreg-", dir="/dev/shm" if os.path.isdir("/dev/shm") else None)
    res = []
    try:
        shutil.copytree("/repo/src", os.path.join(scratch, "src"), ignore=shutil.ignore_patterns("__pycache__", "*.egg-info"))
        p = subprocess.run(["patch", "-p1", "-s", "-i", os.path.join(d, "patch.diff")], cwd=scratch, capture_output=True, text=True)
        if p.returncode != 0:
            return name, "patch does not apply"
        env = dict(os.environ, VERIF_REPO_SRC=os.path.join(scratch, "src"))
        env.pop("PYTHONPATH", None)
        for prop in props[:1]:
            dst = os.path.join(V, "regressions", prop, f"seed_{name}.json")
            if os.path.exists(dst):
                res.append("have")
                continue
            r = subprocess.run(["timeout", "-k", "5", "900", os.path.join(V, "check"), prop, "--no-evidence"], cwd=V, env=env,
                               capture_output=True, text=True)
            if r.returncode != 1:
                res.append(f"not detected (exit {r.returncode})")
                continue
            kept = False
            for line in r.stdout.splitlines():
                if not line.startswith("VIOLATION"):
                    continue
                rp = line.split("replay=", 1)[1].strip()
                if not rp.startswith("replays/"):
                    continue  # an existing regression case already kills it
                src = os.path.join(V, rp)
                env0 = dict(os.environ)
                env0.pop("VERIF_REPO_SRC", None)
                env0.pop("PYTHONPATH", None)
                ok = subprocess.run([os.path.join(V, "check"), prop, "--replay", src], cwd=V, env=env0, capture_output=True, text=True)
                if ok.returncode == 0:
                    data = json.load(open(src))
                    data["note"] = f"shrunk case that exposes seeded/{name}/patch.diff; holds on the real tree"
                    os.makedirs(os.path.dirname(dst), exist_ok=True)
                    json.dump(data, open(dst, "w"), indent=1, sort_keys=True)
                    kept = True
                    break
            res.append("kept" if kept else "killed by an existing regression case")
    finally:
        shutil.rmtree(scratch, ignore_errors=True)
    return name, "; ".join(res)


dirs = sorted(glob.glob(os.path.join(V, "seeded", "C*_*")))
if len(sys.argv) > 1:
    dirs = [d for d in dirs if os.path.basename(d) in sys.argv[1:]]
with concurrent.futures.ThreadPoolExecutor(int(os.environ.get("JOBS", "3"))) as ex:
    for name, st in ex.map(one, dirs):
        print(name, st, flush=True)
