#!/venv/bin/python
"""Sensitivity: apply each mutants/<PROP>/<name>.patch to a scratch copy of /repo, check
that the repository's own test suite still passes there (optional, --tests) and that the
property's check reports a violation (exit 1).  Results -> mutants/results.json.

usage: tools/run_mutants.py [--tests] [--tier quick] [--jobs N] [PROP[/name] ...]
"""

from __future__ import annotations

import argparse
import concurrent.futures
import glob
import json
import os
import shutil
import subprocess
import sys
import tempfile
import time

VERIF = os.path.dirname(os.path.dirname(os.path.abspath(__file__)))
ALWAYS_FAIL = [
    "tests/test_cli.py::test_run_bad_override",
    "tests/test_cli.py::test_run_bad_path",
    "tests/test_cli.py::test_run_missing_root_component_config",
    "tests/test_cli.py::test_run_missing_root_component_type",
]


def run_one(patch: str, with_tests: bool, tier: str, props_override: list[str] | None = None) -> dict:
    prop = os.path.basename(os.path.dirname(patch))
    name = os.path.splitext(os.path.basename(patch))[0]
    base = "/dev/shm" if os.path.isdir("/dev/shm") else tempfile.gettempdir()
    scratch = tempfile.mkdtemp(prefix="mut-", dir=base)
    res: dict = {"property": prop, "mutant": name}
    try:
        for sub in ("src", "tests", "pyproject.toml", "README.rst", "LICENSE"):
            s = os.path.join("/repo", sub)
            d = os.path.join(scratch, sub)
            if os.path.isdir(s):
                shutil.copytree(s, d, ignore=shutil.ignore_patterns("__pycache__", "*.egg-info"))
            else:
                shutil.copy(s, d)
        p = subprocess.run(["patch", "-p1", "-s", "-i", os.path.abspath(patch)], cwd=scratch, capture_output=True, text=True)
        if p.returncode != 0:
            res["status"] = "patch-failed"
            res["detail"] = (p.stdout + p.stderr)[-500:]
            return res
        env = dict(os.environ)
        env["PYTHONPATH"] = os.path.join(scratch, "src")
        env["PYTHONDONTWRITEBYTECODE"] = "1"
        if with_tests:
            cmd = ["/venv/bin/python", "-m", "pytest", "-q", "-p", "no:cacheprovider", "-x", "--timeout=300", "tests"]
            for t in ALWAYS_FAIL:
                cmd += ["--deselect", t]
            t0 = time.time()
            p = subprocess.run(cmd, cwd=scratch, env=env, capture_output=True, text=True)
            res["tests_pass"] = p.returncode == 0
            res["tests_tail"] = p.stdout.strip().splitlines()[-1:] if p.stdout.strip() else []
            res["tests_s"] = round(time.time() - t0, 1)
        env2 = dict(os.environ)
        env2["VERIF_REPO_SRC"] = os.path.join(scratch, "src")
        env2.pop("PYTHONPATH", None)
        checks = {}
        for pr in props_override or [prop]:
            t0 = time.time()
            p = subprocess.run([os.path.join(VERIF, "check"), pr, "--tier", tier, "--no-evidence"],
                               cwd=VERIF, env=env2, capture_output=True, text=True)
            viol = [l for l in p.stdout.splitlines() if l.startswith("VIOLATION")]
            # keep the (shrunk) failing case as a regression case of the property
            for l in viol[:1]:
                rp = l.split("replay=", 1)[1].strip()
                if rp.startswith("replays/") and pr == prop:
                    dst = os.path.join(VERIF, "regressions", pr, f"mut_{name}.json")
                    os.makedirs(os.path.dirname(dst), exist_ok=True)
                    try:
                        data = json.load(open(os.path.join(VERIF, rp)))
                        data["note"] = f"shrunk case that kills mutants/{prop}/{name}.patch"
                        json.dump(data, open(dst, "w"), indent=1, sort_keys=True)
                        # a regression case must hold on the real tree (guards against an invalid shrunk case)
                        envr = dict(os.environ)
                        envr.pop("VERIF_REPO_SRC", None)
                        envr.pop("PYTHONPATH", None)
                        rr = subprocess.run([os.path.join(VERIF, "check"), pr, "--replay", dst], cwd=VERIF, env=envr, capture_output=True, text=True)
                        if rr.returncode != 0:
                            os.remove(dst)
                    except Exception:
                        pass
            detail = [l for l in p.stdout.splitlines() if l.startswith("  [")]
            checks[pr] = {"exit": p.returncode, "violations": len(viol), "detail": [d[:300] for d in detail[:4]],
                          "s": round(time.time() - t0, 1), "stderr": p.stderr.strip()[-400:] if p.returncode == 2 else ""}
        res["checks"] = checks
        res["killed"] = any(c["exit"] == 1 for c in checks.values())
        res["status"] = "ok"
    finally:
        shutil.rmtree(scratch, ignore_errors=True)
    return res


def main() -> int:
    ap = argparse.ArgumentParser()
    ap.add_argument("--tests", action="store_true")
    ap.add_argument("--tier", default="quick")
    ap.add_argument("--jobs", type=int, default=3)
    ap.add_argument("--props", help="comma list: run these checks instead of the mutant's own")
    ap.add_argument("sel", nargs="*")
    a = ap.parse_args()
    patches = sorted(glob.glob(os.path.join(VERIF, "mutants", "C*", "*.patch")))
    if a.sel:
        patches = [p for p in patches if any(
            s == os.path.basename(os.path.dirname(p)) or s == os.path.basename(os.path.dirname(p)) + "/" + os.path.splitext(os.path.basename(p))[0]
            for s in a.sel)]
    path = os.path.join(VERIF, "mutants", "results.json")
    results = json.load(open(path)) if os.path.exists(path) else {}
    rc = 0
    with concurrent.futures.ThreadPoolExecutor(a.jobs) as ex:
        futs = {ex.submit(run_one, p, a.tests, a.tier, a.props.split(",") if a.props else None): p for p in patches}
        for f in concurrent.futures.as_completed(futs):
            r = f.result()
            key = f"{r['property']}/{r['mutant']}"
            old = results.get(key, {})
            if "tests_pass" not in r and "tests_pass" in old:
                r["tests_pass"] = old["tests_pass"]
            results[key] = r
            flag = "KILLED" if r.get("killed") else "SURVIVED"
            if r.get("status") != "ok":
                flag = r.get("status", "?")
            tp = r.get("tests_pass")
            print(f"{key:45s} {flag:10s} tests_pass={tp} " + " ".join(f"{k}:exit{v['exit']}/{v['s']}s" for k, v in r.get("checks", {}).items()))
            if not r.get("killed"):
                rc = 1
                for k, v in r.get("checks", {}).items():
                    if v.get("stderr"):
                        print("   ", v["stderr"][-300:])
    with open(path, "w") as fh:
        json.dump(results, fh, indent=1, sort_keys=True)
    return rc


if __name__ == "__main__":
    sys.exit(main())
