#!/venv/bin/python
"""Write seeded/INDEX.md and mutants/INDEX.md from the recorded results."""
import glob, json, os
V = os.path.dirname(os.path.dirname(os.path.abspath(__file__)))
rows = []
for m in sorted(glob.glob(os.path.join(V, "seeded", "*", "meta.json"))):
    d = json.load(open(m))
    name = os.path.basename(os.path.dirname(m))
    notes = os.path.join(os.path.dirname(m), "notes.md")
    first = ""
    if os.path.exists(notes):
        for line in open(notes):
            line = line.strip().lstrip("#").strip()
            if line:
                first = line[:110]
                break
    det = d.get("detected_by", [])
    how = ""
    for c in det[:1]:
        dd = d["checks"][c]["detail"]
        how = dd[0][:160] if dd else ""
    missed = "not detected - see judgement" if d.get("judgement") else "MISSED"
    if not det and d.get("judgement"):
        how = "judgement: " + d["judgement"][:200]
    rows.append(f"| {name} | {d['property']} | {'yes' if d.get('confirmed') else 'NO'} | {', '.join(det) or missed} | {first} | {how.replace('|', '/')} |")
with open(os.path.join(V, "seeded", "INDEX.md"), "w") as f:
    f.write("# Seeded changes (written by independent sub-agents that saw only the property text)\n\n"
            "Each directory holds patch.diff, demo.py (fails with / passes without the patch), notes.md and meta.json (what was run).\n"
            "`confirmed` = the repository's 287 tests pass with the patch AND the demo fails with / passes without it.\n\n"
            "| seed | property | confirmed | detected by (quick tier) | change | first discrepancy reported |\n|---|---|---|---|---|---|\n")
    f.write("\n".join(rows) + "\n")
res = json.load(open(os.path.join(V, "mutants", "results.json")))
with open(os.path.join(V, "mutants", "INDEX.md"), "w") as f:
    f.write("# Hand-written mutant catalogue (tools/run_mutants.py)\n\n| mutant | repo tests still pass | killed by its property's quick check |\n|---|---|---|\n")
    for k in sorted(res):
        if not os.path.exists(os.path.join(V, "mutants", k + ".patch")):
            continue
        r = res[k]
        f.write(f"| {k} | {r.get('tests_pass')} | {'yes' if r.get('killed') else 'NO'} |\n")
    alive = [k for k in res if os.path.exists(os.path.join(V, 'mutants', k + '.patch'))]
    f.write(f"\n{sum(1 for k in alive if res[k].get('killed'))} of {len(alive)} killed; {sum(1 for k in alive if res[k].get('tests_pass'))} of them pass the repository's own 287 tests.\n")
print(len(rows), "seeds")
