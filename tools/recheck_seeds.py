#!/venv/bin/python
"""Re-run every stored seeded change (seeded/*/patch.diff) against the current /repo and the current checks:
scratch copy of /repo/src -> patch -> ./check PROP (quick). Updates meta.json (detected_by, checks)."""
import concurrent.futures, glob, json, os, shutil, subprocess, sys, tempfile, time
V = os.path.dirname(os.path.dirname(os.path.abspath(__file__)))
def one(d):
    meta_p = os.path.join(d, "meta.json")
    meta = json.load(open(meta_p))
    prop = meta["property"]
    scratch = tempfile.mkdtemp(prefix="seed-", dir="/dev/shm" if os.path.isdir("/dev/shm") else None)
    try:
        shutil.copytree("/repo/src", os.path.join(scratch, "src"), ignore=shutil.ignore_patterns("__pycache__", "*.egg-info"))
        p = subprocess.run(["patch", "-p1", "-s", "-i", os.path.join(d, "patch.diff")], cwd=scratch, capture_output=True, text=True)
        if p.returncode != 0:
            meta["recheck"] = {"status": "patch does not apply to the current tree", "detail": (p.stdout + p.stderr)[-300:]}
        else:
            env = dict(os.environ, VERIF_REPO_SRC=os.path.join(scratch, "src")); env.pop("PYTHONPATH", None)
            t0 = time.time()
            r = subprocess.run([os.path.join(V, "check"), prop, "--no-evidence"], cwd=V, env=env, capture_output=True, text=True)
            det = [l.strip()[:400] for l in r.stdout.splitlines() if l.startswith("  [")]
            meta["checks"][prop] = {"exit": r.returncode, "detail": det[:3], "s": round(time.time() - t0, 1), "stderr": r.stderr.strip()[-300:] if r.returncode not in (0, 1) else ""}
            meta["detected_by"] = [c for c, v in meta["checks"].items() if v["exit"] == 1]
            meta["recheck"] = {"status": "ok", "repo_head": subprocess.run(["git", "-C", "/repo", "rev-parse", "--short", "HEAD"], capture_output=True, text=True).stdout.strip()}
        json.dump(meta, open(meta_p, "w"), indent=1)
    finally:
        shutil.rmtree(scratch, ignore_errors=True)
    return os.path.basename(d), meta.get("detected_by"), meta.get("recheck", {}).get("status")
dirs = sorted(glob.glob(os.path.join(V, "seeded", "C*_*")))
if len(sys.argv) > 1:
    dirs = [d for d in dirs if os.path.basename(d) in sys.argv[1:]]
with concurrent.futures.ThreadPoolExecutor(int(os.environ.get("RECHECK_JOBS", "3"))) as ex:
    for name, det, st in ex.map(one, dirs):
        print(name, det, st, flush=True)
