#!/venv/bin/python
"""tools/minimize_replay.py PROP replay.json out.json  - minimise a saved failing case
(run with VERIF_REPO_SRC pointing at the tree on which it fails)."""
import importlib, json, os, sys
VERIF = os.path.dirname(os.path.dirname(os.path.abspath(__file__)))
sys.path.insert(0, VERIF)
from harness import driver
from harness.minimize import minimize
from harness.props import PROPS
prop, src, dst = sys.argv[1:4]
driver._quiet()
eng = importlib.import_module(PROPS[prop].engine)
d = json.load(open(src))
out = driver.run_one(eng, d["case"], prop)
buckets = [x.bucket for x in out.discs]
if d["bucket"] not in buckets:
    print("case does not fail with bucket", d["bucket"], "on this tree; got", buckets); sys.exit(1)
case = minimize(eng, prop, d["case"], d["bucket"], driver.run_one, 120)
out = driver.run_one(eng, case, prop)
msg = [x.msg for x in out.discs if x.bucket == d["bucket"]][0]
json.dump({"property": prop, "bucket": d["bucket"], "msg": msg, "case": case, "note": d.get("note", "")}, open(dst, "w"), indent=1, sort_keys=True)
print("minimised:", json.dumps(case, sort_keys=True)[:1500]); print(msg)
