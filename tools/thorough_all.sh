#!/bin/bash
# Run every check's thorough tier once (sequentially); summary lines go to stdout.
cd "$(dirname "$0")/.." || exit 2
W=${W:-16}
for p in ${PROPS:-C17 C13 C01 C02 C03 C04 C18 C10 C11 C05 C06 C07 C08 C09 C12 C14 C15 C16 C19}; do
  /usr/bin/time -f "$p wall=%es" ./check $p --tier thorough --workers $W ${EXTRA:---no-evidence} 2>&1 | grep -v "^  \[" | tail -4
done
