"""Greedy structural minimiser run after Hypothesis' own shrinking (which is capped in
time): tries the engine's ``shrink_candidates(case)`` until none keeps the target bucket.
Candidates that make the interpreter raise (dangling references) are simply rejected."""

from __future__ import annotations

import time
from typing import Any, Callable

from harness.core import canon


def minimize(eng: Any, prop: str, case: Any, bucket: str, run: Callable[[Any, Any, str], Any], budget_s: float) -> Any:
    if not hasattr(eng, "shrink_candidates"):
        return case
    t0 = time.monotonic()
    improved = True
    tried: set[str] = set()
    while improved and time.monotonic() - t0 < budget_s:
        improved = False
        for cand in eng.shrink_candidates(case):
            if time.monotonic() - t0 > budget_s:
                break
            key = canon(cand)
            if key in tried or key == canon(case):
                continue
            tried.add(key)
            try:
                out = run(eng, cand, prop)
            except BaseException:
                continue
            if any(d.bucket == bucket for d in out.discs):
                case = cand
                improved = True
                break
    return case
