"""E2 - resources engine: C02 (visibility), C03 (conflict / identity / atomicity),
C04 (generation), C18 (event).

A case is a history of operations over a growing tree of contexts, executed inside one
``anyio.run``; a reference model (per-context dict of resources + factory table, snapshot
at construction) is applied online, and after EVERY operation every open context's
``get_resources`` view is compared with the model.
"""

from __future__ import annotations

import contextvars
import itertools
from typing import Any, Generic, Optional, TypeVar, Union

import anyio
from hypothesis import strategies as st

from harness.core import HarnessError, Outcome, short_exc
from harness.gen import BACKEND, SEED, D
from harness.vloop import Deadlock, checkpoints, run_virtual

T = TypeVar("T")


class _TdBoom(Exception):
    """raised by a generated teardown callback"""


def _truth(tag: Any) -> bool:
    # every third resource value is an object whose truth value is False (an empty registry, a closed
    # handle ...): a resource is what was published, whatever bool() says about it
    return not (isinstance(tag, tuple) and len(tag) > 1 and isinstance(tag[1], int) and tag[1] % 3 == 0)


class A:
    def __init__(self, tag: Any = None) -> None:
        self.tag = tag

    def __bool__(self) -> bool:
        return _truth(self.tag)

    def __repr__(self) -> str:
        return f"<{type(self).__name__} {self.tag}>"


class B(A):
    pass


class C:
    def __init__(self, tag: Any = None) -> None:
        self.tag = tag

    def __bool__(self) -> bool:
        return _truth(self.tag)

    def __repr__(self) -> str:
        return f"<C {self.tag}>"


class Dd(C):
    pass


class Gen(Generic[T]):
    pass


def _shaped(fn: Any, k: int) -> Any:
    """The same callback as a plain function, a functools.partial or a callable object."""
    import functools

    if k % 5 == 1:
        return functools.partial(fn)
    if k % 5 == 2:
        class _Callable:
            def __call__(self) -> Any:
                return fn()
        return _Callable()
    if k % 5 == 3:
        class _EmptyCallable:  # a callable whose truth value is False
            def __len__(self) -> int:
                return 0

            def __call__(self) -> Any:
                return fn()
        return _EmptyCallable()
    return fn


class _Unrelated:
    """Put into a caller-owned `types` list after a registration (the list is reused)."""


TYPES: list[Any] = [A, B, C, Dd, Gen[int]]
TNAMES = ["A", "B", "C", "D", "G[int]"]
VCLS = [A, B, C, Dd]
NTYPES = len(TYPES)
VALID_NAMES = ["default", "a", "b"]  # (plus the "bulk<k>" names of the occasional large registration run)


def _valid_name(name: Any) -> bool:
    return name in VALID_NAMES or (isinstance(name, str) and name.startswith("bulk") and name[4:].isdigit())
INVALID_NAMES = ["", "a.b", "a b", "a:b"]
LOOKUP_APIS = ["m_nowait", "m_async", "f_nowait", "f_async", "m_list", "f_list", "inj_sync", "inj_async"]
NEEDS_CURRENT = {"f_nowait", "f_async", "f_list", "inj_sync", "inj_async"}
ASYNC_APIS = {"m_async", "f_async", "inj_async"}
LIST_APIS = {"m_list", "f_list"}
ANNOT_MODES = ["arg", "annot_single", "annot_union", "annot_pep604", "annot_optional"]

PROP_CLASSES = {
    "C02": {"visibility", "crash"},
    "C03": {"conflict", "identity", "atomicity"},
    "C04": {"generation"},
    "C18": {"event"},
}


# =====================================================================================
# reference model
# =====================================================================================


class MRes:
    __slots__ = ("serial", "generated", "types", "name", "desc")

    def __init__(self, serial: Any, generated: bool, types: tuple, name: str, desc: Any) -> None:
        self.serial, self.generated, self.types, self.name, self.desc = serial, generated, types, name, desc


class FactoryErr(Exception):
    """Raised by a generated factory on its first call for a context (fail_first)."""


class MFac:
    __slots__ = ("fid", "types", "name", "is_async", "cps", "desc", "optional_annot", "fail_first")

    def __init__(self, fid: int, types: tuple, name: str, is_async: bool, cps: int, desc: Any, optional_annot: bool,
                 fail_first: bool = False) -> None:
        self.fid, self.types, self.name, self.is_async, self.cps, self.desc = fid, types, name, is_async, cps, desc
        self.optional_annot = optional_annot
        self.fail_first = fail_first


class MCtx:
    def __init__(self, idx: int, parent: "MCtx | None") -> None:
        self.idx = idx
        self.parent = parent
        self.state = "new"
        self.children = 0
        if parent is not None:
            # snapshot DOWN at construction: static resources and the factory table
            self.res = {k: r for k, r in parent.res.items() if not r.generated}
            self.fac = dict(parent.fac)
            parent.children += 1
        else:
            self.res = {}
            self.fac = {}
        self.log: list[dict] = []  # expected resource_added events, in order
        self.ok_teardowns: list[Any] = []  # markers of successful adds with a callback
        self.generated: dict[int, Any] = {}  # fid -> serial (completed generations)
        self.pending: dict[int, int] = {}  # fid -> number of generations in flight

    def view(self, tid: int) -> dict[str, Any]:
        return {name: r.serial for (t, name), r in self.res.items() if t == tid}


class Model:
    def __init__(self) -> None:
        self.ctxs: dict[int, MCtx] = {}
        self.facs: dict[int, MFac] = {}

    def new(self, parent: int | None, idx: int | None = None) -> int:
        p = self.ctxs[parent] if parent is not None else None
        if idx is None:
            idx = len(self.ctxs)
        if idx in self.ctxs:
            raise HarnessError(f"context index {idx} used twice")
        c = MCtx(idx, p)
        self.ctxs[idx] = c
        return c.idx

    # ---- add_resource -----------------------------------------------------------
    def add_reasons(self, ctx: int, op: dict) -> set[str]:
        """Reasons for which the call must raise (empty set: must succeed)."""
        c = self.ctxs[ctx]
        reasons = set()
        types = op["types"]
        if op.get("bad_types"):
            reasons.add("types")
        if op.get("none_value"):
            reasons.add("none")
        if not _valid_name(op["name"]):
            reasons.add("name")
        eff = tuple(types) if types else (op["vcls"],)
        if not op.get("bad_types") and any((t, op["name"]) in c.res for t in eff):
            reasons.add("conflict")
        if op.get("teardown") == "bad":
            reasons.add("teardown")
        return reasons

    def add_apply(self, ctx: int, op: dict, serial: Any) -> None:
        c = self.ctxs[ctx]
        eff = tuple(op["types"]) if op["types"] else (op["vcls"],)
        r = MRes(serial, False, eff, op["name"], op.get("desc"))
        for t in eff:
            c.res[(t, op["name"])] = r
        c.log.append({"types": set(eff), "name": op["name"], "desc": op.get("desc"), "factory": False, "loose": False})
        if op.get("teardown") == "ok":
            c.ok_teardowns.append(serial)

    # ---- add_resource_factory ----------------------------------------------------
    def addf_reasons(self, ctx: int, op: dict) -> set[str]:
        c = self.ctxs[ctx]
        reasons = set()
        if not _valid_name(op["name"]):
            reasons.add("name")
        if op.get("none_type"):
            reasons.add("types")
        if op["mode"] == "none":
            reasons.add("notypes")
        elif any((t, op["name"]) in c.fac for t in op["types"]):
            reasons.add("conflict")
        return reasons

    def addf_apply(self, ctx: int, op: dict) -> None:
        c = self.ctxs[ctx]
        f = MFac(op["fid"], tuple(op["types"]), op["name"], op["async"], op.get("cps", 0), op.get("desc"),
                 op["mode"] == "annot_optional", bool(op.get("fail_first")))
        self.facs[f.fid] = f
        for t in f.types:
            c.fac[(t, f.name)] = f.fid
        c.log.append({"types": set(f.types), "name": f.name, "desc": f.desc, "factory": True, "loose": False,
                      "opt": f.optional_annot})

    # ---- lookups -----------------------------------------------------------------
    def lookup(self, ctx: int, tid: int, name: str, api: str, optional: bool) -> tuple:
        c = self.ctxs[ctx]
        key = (tid, name)
        r = c.res.get(key)
        if r is not None:
            return ("val", r.serial)
        if api in LIST_APIS:
            return ("missing-listing",)
        fid = c.fac.get(key)
        if fid is not None:
            f = self.facs[fid]
            if f.is_async and api not in ASYNC_APIS:
                return ("raise", "AsyncResourceError")
            return ("gen", fid)
        return ("none",) if optional else ("raise", "ResourceNotFound")

    def gen_complete(self, ctx: int, fid: int, serial: Any) -> list[int]:
        """Store a finished generation under the factory's pairs that are still free."""
        c = self.ctxs[ctx]
        f = self.facs[fid]
        free = [t for t in f.types if (t, f.name) not in c.res]
        r = MRes(serial, True, tuple(free), f.name, f.desc)
        for t in free:
            c.res[(t, f.name)] = r
        c.generated[fid] = serial
        if free:  # nothing registered -> nothing announced
            c.log.append({"types": set(free), "name": f.name, "desc": f.desc, "factory": False, "loose": True,
                          "within": set(f.types), "opt": f.optional_annot})
        return free


# =====================================================================================
# generator (model-guided; constructive)
# =====================================================================================


class _GTask:
    def __init__(self, base: list[int]) -> None:
        self.base = list(base)
        self.stack: list[int] = []
        self.pending_new: list[int] = []  # constructed here, not yet entered

    def visible(self) -> list[int]:
        return self.base + self.stack

    def top(self) -> int:
        return (self.base + self.stack)[-1]


class _Gen:
    def __init__(self, d: D, prop: str, tier: str, comp: bool) -> None:
        self.d = d
        self.prop = prop
        self.tier = tier
        self.comp = comp
        self.m = Model()
        self.m.new(None)
        self.m.ctxs[0].state = "open"
        self.next_fid = 0
        self.next_vid = 0
        self.max_ctx = 8 if tier == "quick" else 10
        self.max_depth = 4
        self.optional_annot_names: set[str] = set()
        self.failed_once: set[tuple[int, int]] = set()

    def depth(self, idx: int) -> int:
        n, c = 0, self.m.ctxs[idx]
        while c.parent is not None:
            n, c = n + 1, c.parent
        return n

    # -- single operations -------------------------------------------------------------
    def op_new(self, task: _GTask) -> dict | None:
        if len(self.m.ctxs) >= self.max_ctx:
            return None
        d = self.d
        explicit = d.pct(40)
        if explicit:
            cand = [i for i in task.visible() if self.depth(i) < self.max_depth]
            if not cand:
                return None
            parent = d.pick(cand)
        else:
            parent = task.top()
            if self.depth(parent) >= self.max_depth:
                return None
        idx = self.m.new(parent)
        task.pending_new.append(idx)
        return {"op": "new", "parent": parent, "explicit": explicit, "idx": idx}

    def op_enter(self, task: _GTask) -> dict | None:
        cand = [i for i in task.pending_new if self.m.ctxs[i].parent.state == "open"]  # type: ignore[union-attr]
        if not cand:
            return None
        idx = self.d.pick(cand)
        task.pending_new.remove(idx)
        task.stack.append(idx)
        self.m.ctxs[idx].state = "open"
        return {"op": "enter", "ctx": idx}

    def op_leave(self, task: _GTask) -> dict | None:
        if not task.stack:
            return None
        idx = task.stack[-1]
        op: dict[str, Any] = {"op": "leave", "ctx": idx}
        if self.d.pct(35):
            # publications and lookups made from a teardown callback of the context being left
            td = []
            for _ in range(self.d.int(1, 3)):
                if self.d.pct(55):
                    td.append(self.op_add(task, ctx=idx, valid_only=True))
                else:
                    td.append(self.op_get(task, ctx=idx))
            op["td"] = td
        if idx != 0 and self.d.pct(12):
            op["td_raises"] = True  # one of its teardown callbacks raises: the block is left by that exception
        if idx != 0 and not self.m.ctxs[idx].children and self.d.pct(20):
            # the context object is dropped after it has been left while a late listener still holds its
            # resource_added signal; contexts created afterwards may reuse its address
            op["linger"] = True
        task.stack.pop()
        self.m.ctxs[idx].state = "closed"
        return op

    def _target(self, task: _GTask) -> int:
        vis = task.visible()
        if len(vis) == 1 or self.d.pct(55):
            return vis[-1]
        return self.d.pick(vis)

    def op_add(self, task: _GTask, ctx: int | None = None, valid_only: bool = False, key: tuple | None = None) -> dict:
        d = self.d
        if ctx is None:
            ctx = self._target(task)
        c = self.m.ctxs[ctx]
        collide_p = 40 if self.prop == "C03" else 20
        invalid_p = 22 if self.prop in ("C03", "C18") else 8
        op: dict[str, Any] = {"op": "add", "ctx": ctx, "vcls": d.int(0, 3), "vid": self.next_vid}
        self.next_vid += 1
        taken = sorted(c.res)
        fac_keys = sorted(c.fac)
        if taken and d.pct(collide_p):
            t, name = d.pick(taken)
            n_extra = d.int(0, 2)
            types = [d.int(0, NTYPES - 1) for _ in range(n_extra)]
            types.insert(d.int(0, len(types)), t)
            op["name"], op["types"] = name, _dedupe(types)
        elif fac_keys and d.pct(25):
            # a static resource meeting a factory on one of its pairs
            t, name = d.pick(fac_keys)
            types = [t] + [d.int(0, NTYPES - 1) for _ in range(d.int(0, 1))]
            op["name"], op["types"] = name, _dedupe(types)
        else:
            op["name"] = d.pick(VALID_NAMES)
            op["types"] = _dedupe([d.int(0, NTYPES - 1) for _ in range(d.weighted([(0, 30), (1, 35), (2, 25), (3, 10)]))])
        if key is not None:
            op["name"] = key[1]
            op["types"] = _dedupe([key[0]] + [d.int(0, NTYPES - 1) for _ in range(d.int(0, 1))])
        if not valid_only and key is None and d.pct(invalid_p):
            kind = d.pick(["name", "none", "types", "teardown", "name"])
            if kind == "name":
                op["name"] = d.pick(INVALID_NAMES)
            elif kind == "none":
                op["none_value"] = True
            elif kind == "types":
                op["bad_types"] = d.pick(["int5", "list5"])
            else:
                op["teardown"] = "bad"
        if "teardown" not in op and d.pct(35):
            op["teardown"] = "ok"
        if d.pct(30):
            op["desc"] = f"d{op['vid']}"
        op["via"] = "module" if (ctx == task.top() and d.pct(40)) else "method"
        if not self.m.add_reasons(ctx, op):
            self.m.add_apply(ctx, op, ("v", op["vid"]))
        return op

    def op_addf(self, task: _GTask) -> dict:
        d = self.d
        ctx = self._target(task)
        c = self.m.ctxs[ctx]
        fid = self.next_fid
        self.next_fid += 1
        op: dict[str, Any] = {"op": "addf", "ctx": ctx, "fid": fid}
        fac_keys = sorted(c.fac)
        res_keys = sorted(c.res)
        collide_p = 35 if self.prop == "C03" else 15
        ntypes = d.weighted([(1, 45), (2, 40), (3, 15)])
        types = _dedupe([d.int(0, NTYPES - 1) for _ in range(ntypes)])
        name = d.pick(VALID_NAMES)
        if fac_keys and d.pct(collide_p):
            t, name = d.pick(fac_keys)
            types.insert(d.int(0, len(types)), t)
        elif res_keys and d.pct(35):
            # factory meeting a static resource on one of several types
            t, name = d.pick(res_keys)
            types.insert(d.int(0, len(types)), t)
        types = _dedupe(types)
        op["types"], op["name"] = types, name
        mode = d.weighted([("arg", 50), ("annot", 45), ("none", 5 if self.prop in ("C03", "C18") else 1)])
        if mode == "annot":
            if len(types) == 1:
                mode = d.pick(["annot_single", "annot_single", "annot_optional"])
                if mode == "annot_optional" and name in self.optional_annot_names:
                    mode = "annot_single"
            else:
                mode = d.pick(["annot_union", "annot_pep604"])
        op["mode"] = mode
        if mode == "annot_optional":
            self.optional_annot_names.add(name)
        if mode == "none":
            if types and d.pct(50):
                # a functools.partial of an annotated function, types left out: the partial object itself carries
                # no annotation, so the registration is refused - and, like every refused one, leaves nothing behind
                op["wrapped_annot"] = types[0]
            op["types"] = []
        if mode == "arg" and d.pct(6 if self.prop in ("C03", "C18") else 2):
            op["none_type"] = True
        if d.pct(12 if self.prop in ("C03", "C18") else 4):
            op["name"] = d.pick(INVALID_NAMES)
        op["async"] = d.pct(45)
        op["cps"] = d.int(0, 2) if op["async"] else 0
        if op["mode"] == "arg" and d.pct(30):
            op["shape"] = d.pick(["lambda", "partial", "object"])
        if d.pct(14 if self.prop == "C04" else 6):
            op["fail_first"] = True  # the first call for every context raises (after its checkpoints)
        if d.pct(25):
            op["desc"] = f"f{fid}"
        op["via"] = "module" if (ctx == task.top() and d.pct(40)) else "method"
        if not self.m.addf_reasons(ctx, op):
            self.m.addf_apply(ctx, op)
        return op

    def op_get(self, task: _GTask, key: tuple | None = None, ctx: int | None = None, api: str | None = None) -> dict:
        d = self.d
        if ctx is None:
            ctx = self._target(task)
        c = self.m.ctxs[ctx]
        if key is None:
            own = sorted(set(c.res) | set(c.fac))
            other = sorted({k for o in self.m.ctxs.values() for k in list(o.res) + list(o.fac)} - set(own))
            r = d.int(0, 99)
            if own and r < 60:
                key = d.pick(own)
            elif other and r < 85:
                key = d.pick(other)
            else:
                key = (d.int(0, NTYPES - 1), d.pick(VALID_NAMES))
        if api is None:
            api = d.pick(LOOKUP_APIS)
        if api in NEEDS_CURRENT and ctx != task.top():
            if d.bool():
                ctx = task.top()
            else:
                api = {"f_nowait": "m_nowait", "f_async": "m_async", "f_list": "m_list", "inj_sync": "m_nowait",
                       "inj_async": "m_async"}[api]
        optional = d.pct(30)
        if self.comp and ctx == 0 and api in ("f_async", "inj_async"):
            optional = True  # a component context WAITS for missing non-optional resources
        op = {"op": "get", "ctx": ctx, "api": api, "t": key[0], "name": key[1], "optional": optional}
        # offline model step (sequential approximation; only steers generation)
        exp = self.m.lookup(ctx, key[0], key[1], api, optional)
        if exp[0] == "gen":
            if self.m.facs[exp[1]].fail_first and (ctx, exp[1]) not in self.failed_once:
                self.failed_once.add((ctx, exp[1]))
            else:
                self.m.gen_complete(ctx, exp[1], ("g", exp[1], ctx))
        return op

    def op_par(self, task: _GTask) -> dict | None:
        d = self.d
        nb = d.int(2, 3 if self.tier == "quick" else 4)
        branches = []
        race_p = {"C04": 60, "C18": 45, "C03": 40}.get(self.prop, 25)
        race_key = None
        race_ctx = None
        if d.pct(race_p):
            # racing lookups of one (async) factory from several tasks
            cand = []
            for i in task.visible():
                c = self.m.ctxs[i]
                for k, fid in sorted(c.fac.items()):
                    if k not in c.res and self.m.facs[fid].is_async:
                        cand.append((i, k))
            if cand:
                race_ctx, race_key = d.pick(cand)
        for _ in range(nb):
            bt = _GTask(task.visible())
            ops: list[dict] = []
            n = d.int(1, 5)
            for j in range(n):
                if race_key is not None and (j == 0 or d.pct(40)):
                    fid = self.m.ctxs[race_ctx].fac.get(race_key)  # type: ignore[index]
                    k = race_key
                    if fid is not None and d.pct(40):
                        # another type of the same factory
                        f = self.m.facs[fid]
                        k = (d.pick(list(f.types)), f.name)
                    o: dict | None = self.op_get(bt, key=k, ctx=race_ctx, api=d.pick(["m_async", "m_async", "m_nowait"]))
                elif race_key is not None and d.pct(30):
                    # a static resource arriving under the requested pair while the factory runs
                    o = self.op_add(bt, ctx=race_ctx, key=race_key)
                else:
                    o = self.one(bt, allow_par=False)
                if o is not None:
                    o["pre"] = d.int(0, 2)
                    ops.append(o)
            while bt.stack:
                ops.append(self.op_leave(bt))  # type: ignore[arg-type]
            branches.append(ops)
        return {"op": "par", "branches": branches}

    def one(self, task: _GTask, allow_par: bool) -> dict | None:
        d = self.d
        w = {"new": 12, "enter": 14, "leave": 7, "add": 22, "addf": 12, "get": 30, "par": 6 if allow_par else 0}
        if self.prop == "C04":
            w.update(addf=18, get=34, new=14)
        if self.prop == "C02":
            w.update(new=16, enter=18)
        if not task.pending_new:
            w["enter"] = 0
        elif len(task.pending_new) >= 2:
            w["enter"] += 10
        if not task.stack:
            w["leave"] = 0
        kind = d.weighted(list(w.items()))
        if kind == "new":
            return self.op_new(task)
        if kind == "enter":
            return self.op_enter(task)
        if kind == "leave":
            return self.op_leave(task)
        if kind == "add":
            return self.op_add(task)
        if kind == "addf":
            return self.op_addf(task)
        if kind == "get":
            return self.op_get(task)
        return self.op_par(task)


def _dedupe(xs: list) -> list:
    out = []
    for x in xs:
        if x not in out:
            out.append(x)
    return out


@st.composite
def histories(draw: Any, prop: str, tier: str) -> dict:
    d = D(draw)
    backend = draw(BACKEND)
    comp = d.pct(20)
    g = _Gen(d, prop, tier, comp)
    main = _GTask([0])
    n = d.int(5, 40 if tier == "quick" else 70)
    ops = []
    if d.pct(8 if prop in ("C02", "C04") else 3):
        # a context that holds dozens of resources / factories before anything else happens
        # ("for all context trees", not only for tables of a handful of entries)
        fac_share = d.pick([55, 55, 10, 90])
        for k in range(d.pick([20, 33, 40, 40, 70])):
            t = d.int(0, 3)
            if d.pct(fac_share):
                op = {"op": "addf", "ctx": 0, "fid": g.next_fid, "types": [t], "name": f"bulk{k}", "mode": "arg", "async": d.pct(30), "cps": 0,
                      "via": "method"}
                g.next_fid += 1
                g.m.addf_apply(0, op)
            else:
                op = {"op": "add", "ctx": 0, "vcls": t, "vid": g.next_vid, "name": f"bulk{k}", "types": [t], "via": "method"}
                g.next_vid += 1
                g.m.add_apply(0, op, ("v", op["vid"]))
            ops.append(op)
        g.bulk = True
    crowd_at = d.int(0, n - 1) if d.pct(4 if prop in ("C18", "C02") else 1) else -1
    for k_ in range(n):
        if k_ == crowd_at:
            # dozens of short-lived child contexts, each publishing something of its own (and so each with
            # its own resource_added signal), come and go in the middle of the history
            ops.append({"op": "crowd", "k": d.pick([33, 40, 70])})
        o = g.one(main, allow_par=True)
        if o is not None:
            ops.append(o)
    return {"backend": backend, "sched_seed": draw(SEED), "comp": comp, "ops": ops}


@st.composite
def _reentrant_cases(draw: Any) -> dict:
    from harness.engines import reentrant

    d = D(draw)
    if d.pct(20):
        return {"kind": "reentrant", "family": "retry", "backend": draw(BACKEND), "sched_seed": draw(SEED), "racers": d.int(2, 5),
                "cps": d.int(0, 3), "api": d.pick(["m_async", "f_async", "inj_async"]), "nested": d.bool(), "stagger": d.int(0, 2),
                "dur": d.pick([0, 0, 0, 35, 100]), "pre": d.pick([0, 0, 0, 15, 16, 20])}
    if d.pct(35):
        return {"kind": "reentrant", "family": "chain", "backend": draw(BACKEND), "sched_seed": draw(SEED), "a_async": d.bool(),
                "b_async": d.bool(), "api": d.pick(reentrant.APIS), "nested": d.bool(), "racers": d.int(1, 4), "b_first": d.pct(30),
                "cps": d.int(0, 3)}
    ft = d.pick([[0], [1], [2], [0, 1], [0, 2], [1, 2], [2, 0], [0, 1, 2], [2, 1, 0]])
    inner = [u for u in ft if d.pct(50)]
    fasync = d.bool()
    return {"kind": "reentrant", "backend": draw(BACKEND), "sched_seed": draw(SEED), "ftypes": ft, "inner": inner, "t": d.pick(ft),
            "api": d.pick(reentrant.APIS), "fasync": fasync, "nested": d.bool(), "cps": d.int(0, 2) if fasync else 0}


def strategy(prop: str, tier: str) -> st.SearchStrategy:
    if prop in ("C03", "C04", "C18"):
        # a few per cent of the cases come from the small family of re-entrant factories (harness/engines/reentrant.py)
        return st.one_of(*([histories(prop, tier)] * 19 + [_reentrant_cases()]))
    return histories(prop, tier)


def exhaustive_cases(prop: str, tier: str, w: int, n: int):
    if prop not in ("C03", "C04", "C18"):
        return
    from harness.engines import reentrant

    for i, case in enumerate(itertools.chain(reentrant.all_cases(), reentrant.chain_cases(), reentrant.retry_cases(), reentrant.wide_cases())):
        if i % n == w:
            yield case


# =====================================================================================
# interpreter
# =====================================================================================

_lookup_var: contextvars.ContextVar[Any] = contextvars.ContextVar("verif_lookup", default=None)


class _Task:
    def __init__(self, name: str, base: list[int]) -> None:
        self.name = name
        self.base = list(base)
        self.stack: list[int] = []

    def top(self) -> int:
        return (self.base + self.stack)[-1]


class Interp:
    def __init__(self, case: dict, prop: str) -> None:
        self.case = case
        self.prop = prop
        self.out = Outcome()
        self.m = Model()
        self.real: dict[int, Any] = {}  # ctx idx -> Context
        self.objs: dict[Any, Any] = {}  # serial -> object
        self.serial_of: dict[int, Any] = {}  # id(obj) -> serial
        self.keep: list[Any] = []  # keep every object alive so ids stay unique
        self.gen_serials: set[Any] = set()
        self.fcalls: dict[tuple[int, int], int] = {}  # (ctx, fid) -> factory call count
        self.fproduced: dict[tuple[int, int], list] = {}  # (ctx, fid) -> serials of produced objects
        self.fac_cb: dict[int, Any] = {}
        self.streams: dict[int, Any] = {}  # ctx -> (cm, iterator)
        self.idle_streams: dict[int, list] = {}
        self.td_marks: dict[int, list[Any]] = {}  # ctx -> teardown markers observed
        self.failed_td: set[Any] = set()
        self.failed_sigs: dict[int, list] = {}  # ctx -> [(name, types, is_factory, description of the failed call)]
        self.lingering: list = []  # (idx, cm, iterator) of listeners that outlive their (dropped) context
        self.dead_ids: set[int] = set()
        self.returned: dict[tuple[int, int, str], Any] = {}  # (ctx, t, name) -> serial first returned
        self.trace: list[Any] = []
        self.diverged = False
        self.comp_ctx: Any = None
        self.harness_exc: BaseException | None = None
        # facts for non-triviality
        self.f_late_adds: set[tuple[int, int, str]] = set()
        self.f_cross_lookup = False
        self.f_multi_raise = False
        self.f_gen_taken = False
        self.f_gen_in: set[tuple[int, int]] = set()
        self.f_child_after_gen: dict[int, set[int]] = {}
        self.f_child_lookup = False
        self.f_par_race = False
        self.n_ok = 0
        self.n_fail = 0
        self.n_entered = 1
        self.labels: set[str] = set()

    # -- helpers -----------------------------------------------------------------------
    def disc(self, classes: list[str], bucket: str, msg: str) -> None:
        for cls in classes:
            if cls in PROP_CLASSES[self.prop]:
                self.out.add(cls, f"{cls}:{bucket}", msg)

    def ser(self, obj: Any) -> Any:
        if obj is None:
            return None
        return self.serial_of.get(id(obj), ("?", repr(obj)[:40]))

    def reg(self, serial: Any, obj: Any) -> None:
        self.objs[serial] = obj
        self.serial_of[id(obj)] = serial
        self.keep.append(obj)

    def make_factory(self, op: dict) -> Any:
        fid = op["fid"]
        types = op["types"]
        cls = VCLS[types[0]] if types and types[0] < 4 else A
        interp = self

        fail_first = bool(op.get("fail_first"))

        def begin() -> tuple:
            """Called when the factory body starts running; decides whether this call fails."""
            info = _lookup_var.get()
            ctx = info["ctx"] if info else -1
            n = interp.fcalls.get((ctx, fid), 0)
            interp.fcalls[(ctx, fid)] = n + 1
            return info, ctx, n, (fail_first and n == 0)

        def produce(info: Any, ctx: int, n: int) -> Any:
            serial = ("g", fid, ctx, n)
            obj = cls(serial)
            interp.reg(serial, obj)
            interp.gen_serials.add(serial)
            interp.fproduced.setdefault((ctx, fid), []).append(serial)
            if info is not None:
                info["produced"].append(serial)
            return obj

        if op["async"]:
            cps = op.get("cps", 0)

            async def cb() -> Any:
                info, ctx, n, fails = begin()
                if fails:
                    await checkpoints(cps)
                    if info is not None:
                        info["failed"] = True
                    raise FactoryErr(f"f{fid} call {n} for context #{ctx}")
                obj = produce(info, ctx, n)
                await checkpoints(cps)
                return obj
        else:

            def cb() -> Any:  # type: ignore[misc]
                info, ctx, n, fails = begin()
                if fails:
                    if info is not None:
                        info["failed"] = True
                    raise FactoryErr(f"f{fid} call {n} for context #{ctx}")
                return produce(info, ctx, n)

        shape = op.get("shape")
        if shape and op["mode"] == "arg":
            inner = cb
            if shape == "lambda":
                cb = lambda: inner()  # noqa: E731  (an async factory that is not an `async def`)
            elif shape == "partial":
                import functools

                cb = functools.partial(inner)
            elif shape == "object":
                if op["async"]:
                    class _AsyncFactory:
                        async def __call__(self) -> Any:
                            return await inner()
                    cb = _AsyncFactory()
                else:
                    class _Factory:
                        def __call__(self) -> Any:
                            return inner()
                    cb = _Factory()
            return cb
        mode = op["mode"]
        tt = [TYPES[t] for t in types]
        if mode == "none" and op.get("wrapped_annot") is not None:
            import functools

            cb.__annotations__ = {"return": TYPES[op["wrapped_annot"]]}
            return functools.partial(cb)
        if mode == "annot_single":
            cb.__annotations__ = {"return": tt[0]}
        elif mode == "annot_optional":
            cb.__annotations__ = {"return": Optional[tt[0]]}
        elif mode == "annot_union":
            cb.__annotations__ = {"return": Union[tuple(tt)]}  # type: ignore[valid-type]
        elif mode == "annot_pep604":
            u = tt[0]
            for x in tt[1:]:
                u = u | x
            cb.__annotations__ = {"return": u}
        else:
            cb.__annotations__ = {}
        return cb

    # -- view comparison after every op ------------------------------------------------
    def check_views(self, opkind: str, target: int | None, failed: bool, desc: str) -> None:
        for c in sorted(self.m.ctxs.values(), key=lambda c: c.idx):
            if c.state != "open":
                continue
            rc = self.real[c.idx]
            for tid in range(NTYPES):
                try:
                    raw = rc.get_resources(TYPES[tid])
                    actual = {n: self.ser(v) for n, v in raw.items()}
                    if isinstance(raw, dict):
                        raw.clear()  # (what the caller does with the returned mapping is the caller's business)
                except Exception as exc:
                    self.disc(["crash"], "get_resources-raises", f"get_resources raised {short_exc(exc)} after {desc}")
                    self.diverged = True
                    return
                expected = c.view(tid)
                if actual == expected:
                    continue
                diff = {n for n in set(actual) | set(expected) if actual.get(n) != expected.get(n)}
                involved = {actual.get(n) for n in diff} | {expected.get(n) for n in diff}
                gen_involved = any(s in self.gen_serials for s in involved)
                where = "target" if c.idx == target else ("other" if target is not None else "ctx")
                msg = (f"after {desc}: context #{c.idx} get_resources({TNAMES[tid]}) = {actual}, model says {expected}")
                if opkind == "new":
                    classes = ["visibility"] + (["generation"] if gen_involved else [])
                    b = "child-inherits-generated" if gen_involved else "child-snapshot-wrong"
                elif opkind in ("add", "addf"):
                    if failed:
                        classes, b = ["atomicity"], f"failed-{opkind}-changed-view"
                    else:
                        classes, b = ["visibility"], f"{opkind}-view-{where}"
                elif opkind == "get":
                    if failed:
                        # "raises AsyncResourceError and registers nothing" / failed lookups change nothing
                        classes, b = ["generation"], "failed-lookup-changed-view"
                    elif gen_involved:
                        # (get_resources is a lookup path too: "all lookup paths agree on this visible set")
                        classes = ["generation", "visibility"]
                        b = f"generated-view-{where}"
                        # a generated object replacing a previously returned one
                        if any(expected.get(n) is not None and actual.get(n) in self.gen_serials
                               and expected.get(n) not in self.gen_serials for n in diff):
                            classes.append("identity")
                            b = "generation-overwrote-taken-pair"
                    else:
                        classes, b = ["visibility"], f"lookup-changed-view-{where}"
                else:
                    classes, b = ["visibility"], f"{opkind}-changed-view"
                self.disc(classes, b, msg)
                self.diverged = True  # model and code disagree: later comparisons are meaningless
                return

    # -- operations --------------------------------------------------------------------
    async def run_ops(self, task: _Task, ops: list[dict]) -> None:
        for op in ops:
            if self.diverged:
                break
            pre = op.get("pre", 0)
            if pre:
                await checkpoints(pre)
                if self.diverged:
                    break
            await self.exec_op(task, op)

    async def exec_op(self, task: _Task, op: dict) -> None:
        kind = op["op"]
        if kind == "new":
            await self.do_new(task, op)
        elif kind == "enter":
            await self.do_enter(task, op)
        elif kind == "leave":
            await self.do_leave(task, op["ctx"], op)
        elif kind == "add":
            self.do_add(task, op)
        elif kind == "addf":
            self.do_addf(task, op)
        elif kind == "get":
            await self.do_get(task, op)
        elif kind == "par":
            await self.do_par(task, op)
        elif kind == "crowd":
            from asphalt.core import Context

            from contextlib import AsyncExitStack

            self.labels.add("crowd-of-contexts")
            async with AsyncExitStack() as stack:  # (a chain: all of them are alive at the same time)
                for k in range(op["k"]):
                    c = await stack.enter_async_context(Context())
                    c.add_resource(_Unrelated(), f"crowd{k}", types=[_Unrelated])
            self.trace.append(["crowd", op["k"]])
        else:
            raise HarnessError(f"unknown op {kind}")

    async def do_new(self, task: _Task, op: dict) -> None:
        from asphalt.core import Context

        parent = op["parent"]
        if not op["explicit"] and parent != task.top():
            raise HarnessError(f"implicit parent {parent} is not the task's top {task.top()}")
        idx = self.m.new(parent, op["idx"])
        try:
            if op["explicit"] and self.case["comp"] and parent == 0 and task.top() == 0 and op["idx"] % 2:
                # inside component code the current context is the component's own one; passing it
                # explicitly must behave like passing the context it delegates to
                from asphalt.core import current_context

                self.labels.add("explicit-component-context-parent")
                rc = Context(current_context())
            else:
                if op["idx"] % 5 == 3:
                    from harness.engines.ctxstack import empty_context_class

                    Context = empty_context_class()  # noqa: N806 - a Context subclass whose instances are falsy
                    self.labels.add("falsy-context-subclass")
                rc = Context(self.real[parent]) if op["explicit"] else Context()
                if self.dead_ids and id(rc) not in self.dead_ids:
                    # try to get the new context allocated where a dropped one used to be
                    pool = [rc]
                    for _ in range(100):
                        c2 = Context(self.real[parent]) if op["explicit"] else Context()
                        if id(c2) in self.dead_ids:
                            rc = c2
                            break
                        pool.append(c2)
                    del pool
            if id(rc) in self.dead_ids:
                self.dead_ids.discard(id(rc))
                self.labels.add("context-at-address-of-dropped-context")
        except Exception as exc:
            self.disc(["crash"], "Context()-raises", f"Context() raised {short_exc(exc)}")
            self.diverged = True
            return
        self.real[idx] = rc
        for s in self.f_gen_in:
            if s[0] == parent:
                self.f_child_after_gen.setdefault(idx, set()).add(s[1])
        self.trace.append(["new", idx, "parent", parent])
        # the child's initial view is checked when it is entered (get_resources has no guard,
        # but only entered contexts are part of the public contract)
        exp_parent = self.real[parent]
        if rc.parent is not exp_parent:
            self.disc(["visibility"], "wrong-parent", f"Context created with parent #{parent} reports parent {rc.parent!r}")

    async def do_enter(self, task: _Task, op: dict) -> None:
        idx = op["ctx"]
        rc = self.real[idx]
        try:
            await rc.__aenter__()
        except Exception as exc:
            self.disc(["crash"], "enter-raises", f"entering context #{idx} raised {short_exc(exc)}")
            self.diverged = True
            return
        task.stack.append(idx)
        self.m.ctxs[idx].state = "open"
        self.n_entered += 1
        await self.open_stream(idx)
        self.trace.append(["enter", idx])
        self.check_views("new", idx, False, f"entering context #{idx} (created from #{self.m.ctxs[idx].parent.idx})")  # type: ignore[union-attr]

    async def open_stream(self, idx: int) -> None:
        if idx == 0 and any(o.get("name", "").startswith("bulk") for o in self.case["ops"][:3] if isinstance(o.get("name"), str)):
            # a subscriber with the default queue size that never reads, subscribed BEFORE everybody else: once its
            # queue is full it loses events (that is documented) - nobody else does, and publishing goes on
            cm0 = self.real[idx].resource_added.stream_events()
            await cm0.__aenter__()
            self.idle_streams.setdefault(idx, []).append(cm0)
            self.labels.add("idle-subscriber-with-full-queue")
        cm = self.real[idx].resource_added.stream_events(max_queue_size=100000)
        it = await cm.__aenter__()
        self.streams[idx] = (cm, it)
        if idx % 3 == 1:
            # an idle subscriber with a filter that would raise: filters belong to the subscriber's
            # side, so publishing must not be affected by it
            def bad_filter(ev: Any) -> bool:
                raise RuntimeError("subscriber filter failed")

            cm2 = self.real[idx].resource_added.stream_events(bad_filter, max_queue_size=100000)
            await cm2.__aenter__()
            self.idle_streams.setdefault(idx, []).append(cm2)
            self.labels.add("idle-subscriber-with-raising-filter")

    async def drain(self, idx: int) -> None:
        """Compare the events received on context idx with the model's log."""
        from asphalt.core import ResourceEvent

        cm, it = self.streams.pop(idx)
        for cm2 in self.idle_streams.pop(idx, []):
            try:
                await cm2.__aexit__(None, None, None)
            except Exception:
                pass
        rc = self.real[idx]
        expected = list(self.m.ctxs[idx].log)
        sentinel = ResourceEvent((), "__verif_sentinel__", None, False)
        rc.resource_added.dispatch(sentinel)
        got = []
        while True:
            ev = await it.__anext__()
            if ev is sentinel:
                break
            if ev.resource_types and all(t is type(None) for t in ev.resource_types):
                continue  # Optional[...] return annotations also register NoneType: not modelled
            got.append(ev)
        await cm.__aexit__(None, None, None)
        if self.diverged:
            # the model stopped following the history, but one clause needs no model: a call that
            # raised announces nothing
            def tset_of(ev: Any) -> set:
                return {TYPES.index(t) if t in TYPES else repr(t) for t in ev.resource_types}

            for name, tset, fac, desc in self.failed_sigs.get(idx, []):
                n_got = sum(1 for ev in got if ev.resource_name == name and bool(ev.is_factory) == fac and tset_of(ev) == tset)
                n_exp = sum(1 for e in expected if e["name"] == name and e["factory"] == fac and e["types"] == tset)
                if n_got > n_exp:
                    self.disc(["event"], "failed-call-announced",
                              f"context #{idx}: {desc} raised, yet a matching event was dispatched; got {[_fmt_ev(e) for e in got]}, "
                              f"expected {[_fmt_exp(e) for e in expected]}")
                    break
            return
        problems = []
        for i in range(max(len(got), len(expected))):
            if i >= len(got):
                problems.append(("missing", f"event {i} missing: expected {_fmt_exp(expected[i])}"))
                break
            ev = got[i]
            if i >= len(expected):
                problems.append(("extra", f"unexpected extra event {_fmt_ev(ev)}"))
                break
            e = expected[i]
            try:
                tset = {TYPES.index(t) if t in TYPES else repr(t) for t in ev.resource_types}
            except Exception:
                tset = {repr(ev.resource_types)}
            if e.get("opt"):  # Optional[...] annotation: NoneType may or may not be listed
                tset = {x for x in tset if isinstance(x, int) or "NoneType" not in x}
            ok_types = tset == e["types"]
            if not ok_types and e["loose"]:
                ok_types = e["types"] <= tset <= e["within"]
            if not ok_types:
                problems.append(("types", f"event {i}: resource_types {sorted(map(str, tset))} expected {sorted(e['types'])}"))
            elif ev.resource_name != e["name"]:
                problems.append(("name", f"event {i}: resource_name {ev.resource_name!r} expected {e['name']!r}"))
            elif ev.resource_description != e["desc"]:
                problems.append(("description", f"event {i}: description {ev.resource_description!r} expected {e['desc']!r}"))
            elif bool(ev.is_factory) != e["factory"]:
                problems.append(("is_factory", f"event {i}: is_factory {ev.is_factory!r} expected {e['factory']!r}"))
            elif ev.source is not rc:
                problems.append(("source", f"event {i}: source is {ev.source!r}, not the context it was dispatched on"))
            elif ev.topic != "resource_added":
                problems.append(("topic", f"event {i}: topic {ev.topic!r}"))
            if problems:
                break
        if problems:
            kind, text = problems[0]
            self.disc(["event"], f"log-{kind}", f"context #{idx}: {text}; got {[_fmt_ev(e) for e in got]}, "
                      f"expected {[_fmt_exp(e) for e in expected]}")

    async def do_leave(self, task: _Task, idx: int, op: dict | None = None) -> None:
        if not task.stack or task.stack[-1] != idx:
            raise HarnessError(f"leave {idx} violates stack discipline {task.stack}")
        rc = self.real[idx]
        td_ops = op.get("td") if op else None
        if op and op.get("td_raises"):
            def boom() -> None:
                raise _TdBoom(f"teardown callback of context #{idx}")

            rc.add_teardown_callback(boom)
        if td_ops and not self.diverged:
            self.labels.add("ops-during-teardown")

            async def during_teardown() -> None:
                try:
                    await self.run_ops(task, td_ops)
                except BaseException as exc:
                    self.note_escape(exc)
                    raise

            rc.add_teardown_callback(during_teardown)
        try:
            await rc.__aexit__(None, None, None)
        except Exception as exc:
            from harness.core import flatten_exc

            leaves = flatten_exc(exc)
            if op and op.get("td_raises") and leaves and all(isinstance(l, _TdBoom) for l in leaves):
                # left by the exception of its own teardown callback: closed all the same, and everything that
                # follows (implicit parents, views, lookups) goes on as after any other way of leaving
                self.labels.add("left-by-raising-teardown")
            else:
                self.disc(["crash"], "leave-raises", f"leaving context #{idx} raised {short_exc(exc)}")
                self.diverged = True
                self.m.ctxs[idx].state = "closed"
                task.stack.pop()
                if idx in self.streams:
                    cm, _ = self.streams.pop(idx)
                    await cm.__aexit__(None, None, None)
                return
        self.m.ctxs[idx].state = "closed"
        task.stack.pop()
        await self.drain(idx)  # (a signal keeps working after its context has been closed)
        self.trace.append(["leave", idx])
        marks = self.td_marks.get(idx, [])
        for s in marks:
            if s in self.failed_td:
                self.disc(["atomicity"], "failed-add-teardown-ran",
                          f"teardown callback of a FAILED add_resource ({s}) ran when context #{idx} was left")
        if not self.diverged:
            self.check_views("leave", None, False, f"leaving context #{idx}")
        if op and op.get("linger") and not self.diverged:
            import weakref

            cm = rc.resource_added.stream_events(max_queue_size=1000)
            it = await cm.__aenter__()
            self.lingering.append((idx, cm, it))
            ref, old_id = weakref.ref(rc), id(rc)
            self.real[idx] = None
            del rc
            if ref() is None:
                self.labels.add("left-context-dropped-with-listener")
                self.dead_ids.add(old_id)

    async def check_lingering(self) -> None:
        """Listeners of dropped contexts: nothing published elsewhere may reach them."""
        for idx, cm, it in self.lingering:
            got = []
            with anyio.move_on_after(0.25):
                while True:
                    got.append(await it.__anext__())
            try:
                await cm.__aexit__(None, None, None)
            except Exception:
                pass
            if got and not self.diverged:
                self.disc(["event"], "foreign-delivery",
                          f"a listener of context #{idx} (left and dropped before) received {[_fmt_ev(e) for e in got]}, "
                          f"published on other contexts (sources {[e.source for e in got]!r})")
        self.lingering.clear()

    def do_add(self, task: _Task, op: dict) -> None:
        from asphalt.core import ResourceConflict, add_resource

        ctx = op["ctx"]
        c = self.m.ctxs[ctx]
        if c.state != "open":
            raise HarnessError(f"add targets non-open context {ctx}")
        serial = ("v", op["vid"])
        value: Any = None if op.get("none_value") else VCLS[op["vcls"]](serial)
        if value is not None:
            self.reg(serial, value)
        if op.get("bad_types") == "int5":
            types: Any = 5
        elif op.get("bad_types") == "list5":
            types = [TYPES[t] for t in op["types"]] + [5]
        elif len(op["types"]) == 1 and op["vid"] % 2 == 0:
            types = TYPES[op["types"][0]]  # a bare type instead of a sequence
        else:
            types = [TYPES[t] for t in op["types"]]
        scratch_list = types if isinstance(types, list) else None
        td = op.get("teardown")
        kwargs: dict[str, Any] = {}
        if td == "ok":
            marks = self.td_marks.setdefault(ctx, [])
            kwargs["teardown_callback"] = _shaped(lambda: marks.append(serial), op["vid"])
        elif td == "bad":
            # not callable - and, for some, not even true
            kwargs["teardown_callback"] = [5, 0, "", [], False, "close"][op["vid"] % 6]
        if "desc" in op:
            kwargs["description"] = op["desc"]
        reasons = self.m.add_reasons(ctx, op)
        if len(op["types"]) >= 2 and reasons:
            self.f_multi_raise = True
        exc: BaseException | None = None
        try:
            if op["via"] == "module":
                if ctx != task.top():
                    raise HarnessError("module-level add on a context that is not current")
                add_resource(value, op["name"], types, **kwargs)
            else:
                self.real[ctx].add_resource(value, op["name"], types, **kwargs)
        except HarnessError:
            raise
        except Exception as e:
            exc = e
        if scratch_list is not None and self.prop != "C03":
            # callers reuse their scratch lists: what was registered must not change with them
            # (under C03 only factory registrations do this, so that the history gets as far as the
            # lookups whose stability C03 is about; the static route is C02's "lookup paths agree")
            scratch_list.clear()
            scratch_list.append(_Unrelated)
        desc = (f"add_resource(<{TNAMES[op['vcls']]} {serial}>, {op['name']!r}, types={[TNAMES[t] for t in op['types']]}"
                f"{', ' + str(op.get('bad_types')) if op.get('bad_types') else ''}"
                f"{', teardown=' + str(td) if td else ''}) on #{ctx}")
        self.trace.append([desc, "raised " + type(exc).__name__ if exc else "ok"])
        if exc is None:
            if reasons:
                if "conflict" in reasons and reasons == {"conflict"}:
                    self.disc(["conflict"], "add-conflict-not-raised", f"{desc} succeeded but the pair was already taken")
                # model cannot follow an accepted invalid input: stop interpreting
                self.diverged = True
                return
            self.n_ok += 1
            self.m.add_apply(ctx, op, serial)
            if c.children or (c.parent is not None and c.parent.children > 1):
                for t in (op["types"] or [op["vcls"]]):
                    self.f_late_adds.add((ctx, t, op["name"]))
            self.check_views("add", ctx, False, desc)
        else:
            self.n_fail += 1
            if td == "ok":
                self.failed_td.add(serial)
            if not op.get("bad_types"):
                self.failed_sigs.setdefault(ctx, []).append((op["name"], set(op["types"] or [op["vcls"]]), False, desc))
            if not reasons:
                cls = "conflict-spurious" if isinstance(exc, ResourceConflict) else "add-raised-unexpectedly"
                self.disc(["conflict"], cls, f"{desc} raised {short_exc(exc)} but the model says it must succeed")
                self.diverged = True
                return
            if reasons == {"conflict"} and not isinstance(exc, ResourceConflict):
                self.disc(["conflict"], "conflict-wrong-exception", f"{desc} raised {short_exc(exc)}, expected ResourceConflict")
            elif not isinstance(exc, (ValueError, TypeError, ResourceConflict)):
                self.disc(["conflict"], "add-wrong-exception-family", f"{desc} raised {short_exc(exc)}")
            self.check_views("add", ctx, True, desc + f" [raised {type(exc).__name__}]")

    def do_addf(self, task: _Task, op: dict) -> None:
        from asphalt.core import ResourceConflict, add_resource_factory

        ctx = op["ctx"]
        c = self.m.ctxs[ctx]
        if c.state != "open":
            raise HarnessError(f"addf targets non-open context {ctx}")
        cb = self.make_factory(op)
        self.fac_cb[op["fid"]] = cb
        kwargs: dict[str, Any] = {}
        if op["mode"] == "arg":
            tt: list[Any] = [TYPES[t] for t in op["types"]]
            if op.get("none_type"):
                tt.append(None)
            kwargs["types"] = tt[0] if (len(tt) == 1 and op["fid"] % 2 == 0) else tt
        if "desc" in op:
            kwargs["description"] = op["desc"]
        reasons = self.m.addf_reasons(ctx, op)
        if len(op["types"]) >= 2 and reasons:
            self.f_multi_raise = True
        exc: BaseException | None = None
        try:
            if op["via"] == "module":
                if ctx != task.top():
                    raise HarnessError("module-level addf on a context that is not current")
                add_resource_factory(cb, op["name"], **kwargs)
            else:
                self.real[ctx].add_resource_factory(cb, op["name"], **kwargs)
        except HarnessError:
            raise
        except Exception as e:
            exc = e
        if isinstance(kwargs.get("types"), list):
            kwargs["types"].clear()
            kwargs["types"].append(_Unrelated)
        desc = (f"add_resource_factory(f{op['fid']}{' async' if op['async'] else ''}, {op['name']!r}, "
                f"types={[TNAMES[t] for t in op['types']]} via {op['mode']}) on #{ctx}")
        self.trace.append([desc, "raised " + type(exc).__name__ if exc else "ok"])
        if exc is None:
            if reasons:
                if reasons == {"conflict"}:
                    self.disc(["conflict"], "addf-conflict-not-raised", f"{desc} succeeded but a factory already holds the pair")
                self.diverged = True
                return
            self.n_ok += 1
            self.m.addf_apply(ctx, op)
            if c.children or (c.parent is not None and c.parent.children > 1):
                for t in op["types"]:
                    self.f_late_adds.add((ctx, t, op["name"]))
            self.check_views("addf", ctx, False, desc)
        else:
            self.n_fail += 1
            probe_types = op["types"] or ([op["wrapped_annot"]] if op.get("wrapped_annot") is not None else [])
            if probe_types:
                self.failed_sigs.setdefault(ctx, []).append((op["name"], set(probe_types), True, desc))
            if not reasons:
                cls = "conflict-spurious" if isinstance(exc, ResourceConflict) else "addf-raised-unexpectedly"
                self.disc(["conflict"], cls, f"{desc} raised {short_exc(exc)} but the model says it must succeed")
                self.diverged = True
                return
            if reasons == {"conflict"} and not isinstance(exc, ResourceConflict):
                self.disc(["conflict"], "conflict-wrong-exception", f"{desc} raised {short_exc(exc)}, expected ResourceConflict")
            elif not isinstance(exc, (ValueError, TypeError, ResourceConflict)):
                self.disc(["conflict"], "add-wrong-exception-family", f"{desc} raised {short_exc(exc)}")
            self.check_views("addf", ctx, True, desc + f" [raised {type(exc).__name__}]")
            # a failed registration must not be usable
            if not self.diverged:
                for t in probe_types:
                    if self.m.ctxs[ctx].fac.get((t, op["name"])) is None and op["name"] in VALID_NAMES:
                        key = (TYPES[t], op["name"])
                        if key not in self.real[ctx]._resources:
                            try:
                                got = self.real[ctx].get_resource_nowait(TYPES[t], op["name"], optional=True)
                            except Exception as e2:
                                got = e2
                            if got is not None:
                                self.disc(["atomicity"], "failed-addf-registered",
                                          f"after failed {desc}, lookup of {TNAMES[t]}/{op['name']} gives {got!r}")
                                self.diverged = True
                                return

    async def do_get(self, task: _Task, op: dict) -> None:
        from asphalt.core import (
            AsyncResourceError,
            ResourceNotFound,
            get_resource,
            get_resource_nowait,
            get_resources,
            inject,
            resource,
        )

        ctx, api, tid, name, optional = op["ctx"], op["api"], op["t"], op["name"], op["optional"]
        c = self.m.ctxs[ctx]
        if c.state != "open":
            raise HarnessError(f"get targets non-open context {ctx}")
        if api in NEEDS_CURRENT and ctx != task.top():
            raise HarnessError("current-context API on a context that is not current")
        rc = self.real[ctx]
        T_ = TYPES[tid]
        exp = self.m.lookup(ctx, tid, name, api, optional)
        key3 = (ctx, tid, name)
        if any(k[1:] == (tid, name) and k[0] != ctx for k in self.f_late_adds):
            self.f_cross_lookup = True
        if any(fid in self.f_child_after_gen.get(ctx, ()) for fid in [c.fac.get((tid, name))] if fid is not None):
            self.f_child_lookup = True
        info = {"ctx": ctx, "produced": [], "failed": False}
        token = _lookup_var.set(info)
        pending_fid = None
        if exp[0] == "gen":
            pending_fid = exp[1]
            c.pending[pending_fid] = c.pending.get(pending_fid, 0) + 1
            if any((t, self.m.facs[pending_fid].name) in c.res for t in self.m.facs[pending_fid].types):
                self.f_gen_taken = True
        result: Any = None
        exc: BaseException | None = None
        try:
            if api == "m_nowait":
                result = rc.get_resource_nowait(T_, name, optional=optional)
            elif api == "m_async":
                result = await rc.get_resource(T_, name, optional=optional)
            elif api == "f_nowait":
                result = get_resource_nowait(T_, name, optional=optional)
            elif api == "f_async":
                result = await get_resource(T_, name, optional=optional)
            elif api == "m_list":
                result = rc.get_resources(T_).get(name)
            elif api == "f_list":
                result = get_resources(T_).get(name)
            elif api == "inj_sync":
                def fn(*, r=resource(name)):  # type: ignore[no-untyped-def]
                    return r
                fn.__annotations__ = {"r": Optional[T_] if optional else T_}
                result = inject(fn)()
            elif api == "inj_async":
                async def afn(*, r=resource(name)):  # type: ignore[no-untyped-def]
                    return r
                afn.__annotations__ = {"r": Optional[T_] if optional else T_}
                result = await inject(afn)()
            else:
                raise HarnessError(api)
        except HarnessError:
            raise
        except Exception as e:
            exc = e
        finally:
            _lookup_var.reset(token)
        produced = info["produced"]
        desc = f"lookup {api}({TNAMES[tid]}, {name!r}{', optional' if optional else ''}) on #{ctx}"
        got_s = self.ser(result)
        self.trace.append([desc, "raised " + type(exc).__name__ if exc else str(got_s)])
        if self.diverged:
            return

        # ---- factory call accounting ------------------------------------------------
        if exp[0] == "gen":
            fid = exp[1]
            c.pending[fid] -= 1
            if isinstance(exc, FactoryErr):
                # an attempt that failed registers nothing; the next lookup tries again
                if c.generated.get(fid) is None:
                    self.labels.add("factory-attempt-failed")
                    self.n_fail += 0
                    self.check_views("get", ctx, True, desc + " [factory raised]")
                    return
            produced_here = self.fproduced.get((ctx, fid), [])
            if c.generated.get(fid) is None and produced and exc is None:
                # the lookup that ran the factory completes the generation (its return is atomic
                # with the registration; other lookups may return before that)
                self.m.gen_complete(ctx, fid, produced[0])
                self.f_gen_in.add((ctx, fid))
            n_p = len(produced_here)
            # (zero productions are fine when the pair was taken by another resource meanwhile)
            if n_p > 1 or (n_p == 0 and c.res.get((tid, name)) is None and exc is None):
                racing = "racing lookups from concurrent tasks" if n_p > 1 else "no call"
                # (two products for one context also means that a pair does not keep its object)
                self.disc(["generation", "identity"] if n_p > 1 else ["generation"], "factory-called-%s" % ("twice-race" if n_p > 1 else "never"),
                          f"{desc}: factory f{fid} produced {n_p} objects ({self.fcalls.get((ctx, fid), 0)} calls) for context #{ctx} ({racing})")
                self.diverged = True
                return
            # the pair resolves to the generated object unless it was taken by another
            # resource while the (async) factory was running
            held = c.res.get((tid, name))
            expected_serial: Any = held.serial if held is not None else c.generated.get(fid)
        else:
            if produced:
                self.disc(["generation"], "factory-called-unexpectedly",
                          f"{desc}: factory was called ({produced}) although the model says "
                          f"{'the pair already resolves to a resource' if exp[0] == 'val' else exp}")
                self.diverged = True
                return
            expected_serial = exp[1] if exp[0] == "val" else None

        # ---- outcome ------------------------------------------------------------------
        if exp[0] == "raise":
            want = {"AsyncResourceError": AsyncResourceError, "ResourceNotFound": ResourceNotFound}[exp[1]]
            if exc is None or not isinstance(exc, want):
                got_txt = f"raised {short_exc(exc)}" if exc else f"returned {got_s}"
                if exp[1] == "AsyncResourceError":
                    self.disc(["generation"], "sync-api-on-async-factory", f"{desc} {got_txt}, expected AsyncResourceError")
                else:
                    classes = ["visibility"] + (["generation"] if got_s in self.gen_serials else [])
                    self.disc(classes, "found-but-should-be-missing", f"{desc} {got_txt}, expected ResourceNotFound")
                self.diverged = True
                return
        elif exp[0] in ("none", "missing-listing"):
            if exc is not None or result is not None:
                got_txt = f"raised {short_exc(exc)}" if exc else f"returned {got_s}"
                classes = ["visibility"] + (["generation"] if got_s in self.gen_serials or produced else [])
                self.disc(classes, "found-but-should-be-missing", f"{desc} {got_txt}, expected None")
                self.diverged = True
                return
        else:
            if exc is not None:
                gen = exp[0] == "gen" or expected_serial in self.gen_serials
                self.disc(["generation"] if gen else ["visibility"], "lookup-raised",
                          f"{desc} raised {short_exc(exc)}, expected {expected_serial}")
                self.diverged = True
                return
            if got_s != expected_serial:
                classes = []
                prev = self.returned.get(key3)
                if prev is not None and prev != got_s:
                    classes.append("identity")
                gen = exp[0] == "gen" or expected_serial in self.gen_serials or got_s in self.gen_serials
                classes.append("generation" if gen else "visibility")
                b = "wrong-object"
                if prev is not None and prev != got_s:
                    b = "pair-changed-object"
                elif got_s in self.gen_serials and expected_serial is not None and expected_serial not in self.gen_serials:
                    # a generated object handed out for a pair that resolves to another resource
                    classes.append("identity")
                    b = "generated-returned-for-taken-pair"
                self.disc(classes, b, f"{desc} returned {got_s}, expected {expected_serial}"
                          + (f" (the pair returned {prev} before)" if prev is not None else ""))
                self.diverged = True
                return
            if api not in LIST_APIS:
                self.returned.setdefault(key3, got_s)
            if exp[0] == "gen" and result is not None:
                # stability probe: the pair that was just resolved must resolve to the same object again
                try:
                    again = rc.get_resource_nowait(T_, name, optional=True)
                except Exception as e2:
                    again = e2
                if again is not result:
                    self.disc(["identity", "generation"], "pair-changed-object",
                              f"{desc} returned {got_s}; looking the same pair up again right away gives "
                              f"{self.ser(again) if not isinstance(again, Exception) else short_exc(again)}")
                    self.diverged = True
                    return
        self.check_views("get", ctx, exc is not None, desc + (f" [raised {type(exc).__name__}]" if exc else ""))

    async def do_par(self, task: _Task, op: dict) -> None:
        base = task.base + task.stack
        tasks = [_Task(f"{task.name}.{i}", base) for i in range(len(op["branches"]))]
        # racing lookups label
        keys: dict[tuple, int] = {}
        for br in op["branches"]:
            seen = set()
            for o in br:
                if o["op"] == "get" and o["api"] in ASYNC_APIS:
                    fid = self.m.ctxs[o["ctx"]].fac.get((o["t"], o["name"])) if o["ctx"] in self.m.ctxs else None
                    if fid is not None and self.m.facs[fid].is_async and self.m.facs[fid].cps > 0:
                        seen.add((o["ctx"], fid))
            for k in seen:
                keys[k] = keys.get(k, 0) + 1
        if any(v >= 2 for v in keys.values()):
            self.f_par_race = True
            self.labels.add("par-race")
        self.labels.add("par")
        self.trace.append(["par", len(tasks)])

        async def branch(t: _Task, ops: list[dict]) -> None:
            try:
                await self.run_ops(t, ops)
            except BaseException as exc:
                self.note_escape(exc)
                raise
            finally:
                # unwind whatever the branch still holds (divergence)
                while t.stack:
                    idx = t.stack[-1]
                    await self.force_leave(t, idx)

        async with anyio.create_task_group() as tg:
            for t, ops in zip(tasks, op["branches"]):
                tg.start_soon(branch, t, ops)
        self.trace.append(["par-end"])

    async def force_leave(self, task: _Task, idx: int) -> None:
        task.stack.pop()
        self.m.ctxs[idx].state = "closed"
        try:
            await self.real[idx].__aexit__(None, None, None)
        except Exception:
            pass
        if idx in self.streams:
            try:
                await self.drain(idx)
            except Exception:
                pass
        for cm2 in self.idle_streams.pop(idx, []):
            try:
                await cm2.__aexit__(None, None, None)
            except Exception:
                pass

    def note_escape(self, exc: BaseException) -> None:
        """Remember exceptions that come from harness code (they may get wrapped later)."""
        from harness.core import flatten_exc, innermost_is_harness

        for leaf in flatten_exc(exc):
            if isinstance(leaf, HarnessError) or (isinstance(leaf, Exception) and innermost_is_harness(leaf)):
                if self.harness_exc is None:
                    self.harness_exc = leaf

    # -- top level ---------------------------------------------------------------------
    async def main(self) -> None:
        from asphalt.core import Component, Context, start_component

        case = self.case
        interp = self
        main_task = _Task("main", [0])
        self.m.new(None)
        self.m.ctxs[0].state = "open"

        async def body() -> None:
            try:
                await interp.run_ops(main_task, case["ops"])
            except BaseException as exc:
                interp.note_escape(exc)
                raise
            finally:
                while main_task.stack:
                    await interp.force_leave(main_task, main_task.stack[-1])

        # an UNRELATED root context lives next to the history: nothing may ever show up in it
        done = anyio.Event()
        probe_keys = sorted({(o["t"], o["name"]) for o in _walk_ops(case["ops"]) if o["op"] == "get" and o["name"] in VALID_NAMES})[:6]

        async def bystander() -> None:
            try:
                async with Context() as other:
                    def look(when: str) -> None:
                        if self.diverged:
                            return
                        for tid in range(NTYPES):
                            seen = other.get_resources(TYPES[tid])
                            if seen:
                                self.disc(["visibility"], "leak-into-unrelated-root",
                                          f"{when}: an unrelated root context shows get_resources({TNAMES[tid]}) = "
                                          f"{ {n: self.ser(v) for n, v in seen.items()} }")
                                self.diverged = True
                                return
                        for (tid, name) in probe_keys:
                            got = other.get_resource_nowait(TYPES[tid], name, optional=True)
                            if got is not None:
                                self.disc(["visibility"], "leak-into-unrelated-root",
                                          f"{when}: lookup of ({TNAMES[tid]}, {name!r}) in an unrelated root context returned {self.ser(got)}")
                                self.diverged = True
                                return

                    n = 0
                    while not done.is_set() and n < 60:
                        look("during the history")
                        await anyio.lowlevel.checkpoint()
                        n += 1
                    await done.wait()
                    look("after the history")
            except BaseException as exc:
                self.note_escape(exc)
                raise

        async def history() -> None:
            try:
                async with Context() as root:
                    self.real[0] = root
                    await self.open_stream(0)
                    if case["comp"]:
                        class Comp(Component):
                            async def start(self) -> None:
                                await body()

                        await start_component(Comp, timeout=None)
                    else:
                        await body()
                    await self.check_lingering()
                await self.drain(0)
            finally:
                done.set()

        async with anyio.create_task_group() as tg:
            tg.start_soon(bystander)
            tg.start_soon(history)
        for sm in self.td_marks.get(0, []):
            if sm in self.failed_td:
                self.disc(["atomicity"], "failed-add-teardown-ran",
                          f"teardown callback of a FAILED add_resource ({sm}) ran when context #0 was left")

    def finish(self) -> Outcome:
        out = self.out
        out.trace = self.trace[:60]
        labs = set(self.labels)
        labs.add(self.case["backend"])
        if self.case["comp"]:
            labs.add("in-component")
        nctx = len(self.m.ctxs)
        labs.add(f"contexts={min(nctx, 6)}{'+' if nctx > 6 else ''}")
        maxdepth = 0
        for c in self.m.ctxs.values():
            dd, p = 0, c
            while p.parent is not None:
                dd, p = dd + 1, p.parent
            maxdepth = max(maxdepth, dd)
        labs.add(f"depth={maxdepth}")
        if self.n_fail:
            labs.add("has-failing-add")
        if self.f_gen_taken:
            labs.add("generation-into-taken-pair")
        if self.f_child_lookup:
            labs.add("child-lookup-after-parent-generation")
        if self.f_cross_lookup:
            labs.add("late-add-cross-lookup")
        if self.diverged:
            labs.add("diverged")
        out.labels = sorted(labs)
        p = self.prop
        if p == "C02":
            out.nontrivial = maxdepth >= 2 and self.f_cross_lookup
        elif p == "C03":
            out.nontrivial = self.f_multi_raise or self.f_gen_taken
        elif p == "C04":
            out.nontrivial = self.f_child_lookup or self.f_par_race
        elif p == "C18":
            out.nontrivial = self.n_entered >= 2 and self.n_ok >= 1 and self.n_fail >= 1
        return out


def _walk_ops(ops: list):
    for o in ops:
        yield o
        if o["op"] == "par":
            for br in o["branches"]:
                yield from _walk_ops(br)
        for t in o.get("td", []) or []:
            yield t


def _fmt_ev(ev: Any) -> str:
    try:
        ts = [TNAMES[TYPES.index(t)] if t in TYPES else repr(t) for t in ev.resource_types]
    except Exception:
        ts = [repr(ev.resource_types)]
    return f"({'|'.join(ts)} {ev.resource_name!r} {'factory' if ev.is_factory else 'resource'})"


def _fmt_exp(e: dict) -> str:
    return f"({'|'.join(TNAMES[t] for t in sorted(e['types']))} {e['name']!r} {'factory' if e['factory'] else 'resource'})"


def run_case(case: dict, prop: str) -> Outcome:
    if case.get("kind") == "reentrant":
        from harness.engines import reentrant

        return reentrant.run_case(case, prop, PROP_CLASSES[prop])
    it = Interp(case, prop)
    try:
        run_virtual(case["backend"], it.main, sched_seed=case.get("sched_seed", 0))
        if it.harness_exc is not None:
            raise HarnessError("harness exception inside the run") from it.harness_exc
    except HarnessError:
        raise
    except Deadlock as exc:
        if it.harness_exc is not None:
            raise HarnessError("harness exception inside the run") from it.harness_exc
        # (a valid history that never completes concerns every property judged on it - e.g. a listener that never
        # receives what was dispatched on its context)
        it.disc(["crash", "generation", "event", "identity"], "deadlock", f"history deadlocked: {exc}; trace tail {it.trace[-3:]}")
    except BaseException as exc:
        from harness.core import flatten_exc, innermost_is_harness

        if it.harness_exc is not None:
            raise HarnessError(f"harness exception inside the run: {short_exc(it.harness_exc)}") from it.harness_exc
        if any(innermost_is_harness(leaf) for leaf in flatten_exc(exc)):
            raise
        it.disc(["crash"], "history-raised:" + type(exc).__name__, f"history raised {short_exc(exc)}; trace tail {it.trace[-3:]}")
    return it.finish()


def shrink_candidates(case: dict):
    """Smaller / simpler variants of a case (for harness.minimize)."""
    import copy

    if case.get("kind") == "reentrant":
        for key, val in (("nested", False), ("backend", "asyncio"), ("sched_seed", 0), ("cps", 0)):
            if case.get(key) != val:
                c = copy.deepcopy(case)
                c[key] = val
                yield c
        return
    ops = case["ops"]
    for i in range(len(ops)):
        c = copy.deepcopy(case)
        del c["ops"][i]
        yield c
    for i, op in enumerate(ops):
        if op["op"] == "par":
            for b in range(len(op["branches"])):
                if len(op["branches"]) > 2:
                    c = copy.deepcopy(case)
                    del c["ops"][i]["branches"][b]
                    yield c
                for j in range(len(op["branches"][b])):
                    c = copy.deepcopy(case)
                    del c["ops"][i]["branches"][b][j]
                    yield c
    for key, val in (("comp", False), ("backend", "asyncio"), ("sched_seed", 0)):
        if case.get(key) != val:
            c = copy.deepcopy(case)
            c[key] = val
            yield c

    def walk(o_list):
        for o in o_list:
            yield o
            if o["op"] == "par":
                for br in o["branches"]:
                    yield from walk(br)

    n = sum(1 for _ in walk(ops))
    for k in range(n):
        for field, val in (("desc", None), ("pre", 0), ("via", "method"), ("teardown", None), ("optional", False), ("cps", 0)):
            c = copy.deepcopy(case)
            o = list(walk(c["ops"]))[k]
            if field not in o or o[field] == val:
                continue
            if field == "cps" and not o.get("async"):
                continue
            if val is None:
                del o[field]
            else:
                o[field] = val
            yield c
