"""C08 - service tasks are stopped at teardown before anything they may depend on.

case = {backend, sched_seed, kind: root|nested, body_sleep: ticks, ending: return|raise, regs: [reg...]}
reg = {"k": "td"} | {"k": "res"} |
      {"k": "svc", "action": cancel|none|sync|async|raise_exc|raise_base, "beh": self_end|until_told|until_cancel|crash,
       "d": ticks, "c": cleanup ticks, "started": bool, "inner_td": bool, "via": module|method}
"""

from __future__ import annotations

import copy
from typing import Any

import anyio
from hypothesis import strategies as st

from harness.core import HarnessError, Outcome, flatten_exc, innermost_is_harness, short_exc
from harness.gen import BACKEND, SEED, D
from harness.vloop import Deadlock, now, run_virtual

ACTIONS = ["cancel", "none", "sync", "async", "raise_exc", "raise_base"]


class Res:
    def __init__(self, i: int) -> None:
        self.i = i


class VErr(Exception):
    pass


class Crash(Exception):
    pass


class ActErr(Exception):
    pass


class ActBase(BaseException):
    pass


def _callable_object(inner: Any, unhashable: bool = False, falsy: bool = False) -> Any:
    import inspect

    extra: dict[str, Any] = {}
    if falsy:
        extra["__len__"] = lambda self: 0  # a callable whose truth value is False
    if unhashable:
        # defining __eq__ without __hash__ makes instances unhashable (think: a dataclass with __call__)
        extra["__eq__"] = lambda self, other: self is other
        extra["__hash__"] = None
    if inspect.iscoroutinefunction(inner):
        async def acall(self: Any) -> None:
            await inner()
        return type("_AsyncStopper", (), {"__call__": acall, **extra})()

    def call(self: Any) -> None:
        inner()
    return type("_Stopper", (), {"__call__": call, **extra})()


@st.composite
def cases(draw: Any, tier: str) -> dict:
    d = D(draw)
    n = d.int(2, 8 if tier == "quick" else 12)
    large = d.pct(4)
    if large:
        n = d.pick([34, 40, 70])  # dozens of registrations on one context
    body_sleep = d.pick([0, 2, 4, 6])
    regs: list[dict] = []
    crashed = False
    for _ in range(n):
        k = d.weighted([("td", 25), ("res", 25), ("svc", 50)]) if not large else d.weighted([("td", 45), ("res", 40), ("svc", 15)])
        if k != "svc":
            regs.append({"k": k})
            continue
        action = d.weighted([("cancel", 30), ("none", 14), ("sync", 16), ("async", 16), ("raise_exc", 14), ("raise_base", 10)])
        if action == "none":
            beh = "self_end"
        elif action in ("sync", "async"):
            beh = d.pick(["until_told", "until_told", "self_end"])
        else:
            beh = d.pick(["self_end", "until_told", "until_cancel"])
        dd = d.pick([x for x in (1, 3, 5, 7) if x != body_sleep])
        r: dict[str, Any] = {"k": "svc", "action": action, "beh": beh, "d": dd, "c": d.weighted([(0, 30), (1, 33), (2, 19), (3, 14), (35, 2), (100, 2)]),  # (clean-up may take long)
                             "shape": d.weighted([("function", 60), ("object", 17), ("partial", 13), ("falsy_object", 10)]),
                             "started": d.pct(30), "inner_td": d.pct(40), "via": d.pick(["module", "method"])}
        if d.pct(30):
            # names are descriptions, not keys: several service tasks may carry the same one
            r["name"] = d.pick(["worker", "worker", "server"])
        if action in ("raise_exc", "raise_base") and d.pct(40):
            r["araise"] = True
        if r["via"] == "method" and d.pct(25):
            r["from_child"] = True  # started through the owner's method while a nested context is current
        if not crashed and body_sleep > 0 and d.pct(6):
            r["beh"] = "crash"
            r["d"] = d.pick([x for x in (1, 3, 5) if x < body_sleep] or [1])
            if r["d"] >= body_sleep:
                r["beh"] = beh
            else:
                crashed = True
        regs.append(r)
    tds = [r for r in regs if r["k"] == "td"]
    if tds and not crashed and d.pct(15):
        # a teardown callback that starts a service task of its own while the context is already being torn down
        d.pick(tds)["late"] = d.pick([1, 2, 3])
    regs2: list[dict] = []
    if d.pct(35):
        # a concurrent registrar (think: sibling components starting at the same time)
        for r in regs:
            r["pre"] = d.int(0, 2)
        for _ in range(d.int(1, 3)):
            regs2.append({"k": d.pick(["res", "res", "td"]), "pre": d.int(0, 3)})
    return {"backend": draw(BACKEND), "sched_seed": draw(SEED), "kind": d.pick(["root", "nested", "component"]), "body_sleep": body_sleep,
            "ending": d.weighted([("return", 70), ("raise", 30)]), "regs": regs, "regs2": regs2}


def strategy(prop: str, tier: str) -> st.SearchStrategy:
    return cases(tier)


class Interp:
    def __init__(self, case: dict) -> None:
        self.case = case
        self.out = Outcome()
        self.trace: list[tuple] = []
        self.harness_exc: BaseException | None = None
        self.start_values: dict[int, Any] = {}
        self.snap_problems: list[str] = []
        self.caught: BaseException | None = None
        self.body_cancelled = False
        self.crash_exc: BaseException | None = None
        self.snapshots: dict[int, set[str]] = {}
        self.all_regs: list[dict] = []

    def disc(self, bucket: str, msg: str) -> None:
        self.out.add("service", "service:" + bucket, msg)

    def ev(self, kind: str, i: int = -1) -> None:
        self.trace.append((len(self.trace), kind, i, now()))

    def note_escape(self, exc: BaseException) -> None:
        for leaf in flatten_exc(exc):
            if isinstance(leaf, HarnessError) or (isinstance(leaf, Exception) and innermost_is_harness(leaf)
                                                  and not isinstance(leaf, (VErr, Crash, ActErr))):
                if self.harness_exc is None:
                    self.harness_exc = leaf

    def make_task(self, i: int, reg: dict, stop: anyio.Event) -> Any:
        from asphalt.core import add_teardown_callback, current_context, get_resources

        interp = self
        cancelled_cls = anyio.get_cancelled_exc_class()

        def check_snapshot(when: str) -> None:
            try:
                names = set(get_resources(Res))
            except Exception as exc:
                interp.snap_problems.append(f"task {i} {when}: get_resources raised {short_exc(exc)}")
                return
            if when == "at start":
                # the snapshot is taken when the task's context is created, i.e. right now: exactly
                # the resources whose registration has completed
                expected = {f"r{t[2]}" for t in interp.trace if t[1] == "reg" and interp.all_regs[t[2]]["k"] == "res"}
                interp.snapshots[i] = set(names)
                if names != expected:
                    interp.snap_problems.append(f"task {i} at start: sees resources {sorted(names)}, registered so far: {sorted(expected)}")
            elif names != interp.snapshots.get(i, names):
                interp.snap_problems.append(f"task {i} {when}: sees resources {sorted(names)}, its snapshot at start was {sorted(interp.snapshots[i])}")

        async def run() -> None:
            interp.ev("task-start", i)
            check_snapshot("at start")
            if reg["inner_td"]:
                async def inner() -> None:
                    # the task's own context takes time to tear down (also when the task was cancelled)
                    with anyio.CancelScope(shield=True):
                        await anyio.sleep(1)
                    interp.ev("inner-td", i)

                add_teardown_callback(inner)
            try:
                if reg["beh"] == "self_end":
                    await anyio.sleep(reg["d"])
                elif reg["beh"] == "until_told":
                    await stop.wait()
                    await anyio.sleep(reg["c"])
                elif reg["beh"] == "until_cancel":
                    await anyio.sleep_forever()
                elif reg["beh"] == "crash":
                    await anyio.sleep(reg["d"])
                    interp.crash_exc = Crash(f"task {i}")
                    interp.ev("task-crash", i)
                    raise interp.crash_exc
            except cancelled_cls:
                interp.ev("task-cancelled", i)
                with anyio.CancelScope(shield=True):
                    await anyio.sleep(reg["c"])
                check_snapshot("at end")
                interp.ev("task-end", i)
                raise
            except Crash:
                interp.ev("task-end", i)
                raise
            check_snapshot("at end")
            interp.ev("task-end", i)

        if reg["started"]:
            async def fn(*, task_status: Any) -> None:
                task_status.started(("started", i))
                await run()
            return fn

        async def fn2() -> None:
            await run()
        return fn2

    async def main(self) -> None:
        from asphalt.core import Context, add_resource, add_teardown_callback, start_service_task

        case = self.case
        regs = case["regs"]
        interp = self
        cancelled_cls = anyio.get_cancelled_exc_class()

        all_regs = regs + case.get("regs2", [])
        self.all_regs = all_regs

        async def register(ctx: Any, ids: list[int]) -> None:
            for i in ids:
                reg = all_regs[i]
                for _ in range(reg.get("pre", 0)):
                    await anyio.lowlevel.checkpoint()
                if reg["k"] == "td" and reg.get("late"):
                    async def late_cb(i: int = i, c: int = reg["late"]) -> None:
                        interp.ev("cb-begin", i)

                        async def late_task() -> None:
                            interp.ev("late-start", i)
                            try:
                                await anyio.sleep_forever()
                            except cancelled_cls:
                                with anyio.CancelScope(shield=True):
                                    await anyio.sleep(c)
                                interp.ev("late-end", i)
                                raise

                        await ctx.start_service_task(late_task, f"late{i}")
                        interp.ev("cb-end", i)
                    add_teardown_callback(late_cb)
                elif reg["k"] == "td":
                    def cb(i: int = i) -> None:
                        interp.ev("cb-begin", i)
                        interp.ev("cb-end", i)
                    add_teardown_callback(cb)
                elif reg["k"] == "res":
                    async def rcb(i: int = i) -> None:
                        interp.ev("cb-begin", i)
                        await anyio.sleep(1)
                        interp.ev("cb-end", i)
                    add_resource(Res(i), f"r{i}", teardown_callback=rcb)
                else:
                    stop = anyio.Event()
                    action: Any
                    a = reg["action"]
                    if a == "cancel":
                        action = "cancel"
                    elif a == "none":
                        action = None
                    elif a == "sync":
                        def action(i: int = i, stop: anyio.Event = stop) -> None:  # type: ignore[misc]
                            interp.ev("action", i)
                            stop.set()
                            interp.ev("action-end", i)
                    elif a == "async":
                        async def action(i: int = i, stop: anyio.Event = stop) -> None:  # type: ignore[misc]
                            interp.ev("action", i)
                            await anyio.sleep(1)
                            stop.set()
                            interp.ev("action-end", i)
                    elif reg.get("araise"):
                        # an async stop callable whose awaitable raises (after a checkpoint)
                        async def action(i: int = i, a: str = a) -> None:  # type: ignore[misc]
                            interp.ev("action", i)
                            await anyio.lowlevel.checkpoint()
                            interp.ev("action-end", i)
                            raise (ActErr if a == "raise_exc" else ActBase)(f"action {i}")
                    elif a == "raise_exc":
                        def action(i: int = i) -> None:  # type: ignore[misc]
                            interp.ev("action", i)
                            interp.ev("action-end", i)
                            raise ActErr(f"action {i}")
                    else:
                        def action(i: int = i) -> None:  # type: ignore[misc]
                            interp.ev("action", i)
                            interp.ev("action-end", i)
                            raise ActBase(f"action {i}")
                    if callable(action) and reg.get("shape") in ("object", "falsy_object"):
                        # a callable object (an instance of a class with __call__) is a callable too
                        action = _callable_object(action, unhashable=bool(i % 2), falsy=reg["shape"] == "falsy_object")
                    elif callable(action) and reg.get("shape") == "partial":
                        import functools

                        action = functools.partial(action)
                    fn = self.make_task(i, reg, stop)
                    # ("cancel" is the default: every other such registration leaves the argument out)
                    akw = {} if action == "cancel" and i % 2 else {"teardown_action": action}
                    try:
                        if reg["via"] == "module":
                            v = await start_service_task(fn, reg.get("name") or f"svc{i}", **akw)
                        elif reg.get("from_child"):
                            from asphalt.core import Context as _Ctx

                            async with _Ctx():
                                v = await ctx.start_service_task(fn, reg.get("name") or f"svc{i}", **akw)
                        else:
                            v = await ctx.start_service_task(fn, reg.get("name") or f"svc{i}", **akw)
                    except Exception as exc:
                        self.disc("start-raised", f"start_service_task(teardown_action={reg['action']}, {reg.get('shape')}) raised {short_exc(exc)}")
                        raise
                    self.start_values[i] = v
                self.ev("reg", i)

        async def block(ctx: Any) -> None:
            if case["kind"] == "component":
                # the same registrations, made from a component's start(): they go through the component's
                # own context object and belong to the context start_component() was called in
                from asphalt.core import Component, current_context, start_component

                class Starter(Component):
                    async def start(self) -> None:
                        await registrations(current_context())

                await start_component(Starter, timeout=None)
            else:
                await registrations(ctx)
            try:
                await anyio.sleep(case["body_sleep"])
            except cancelled_cls:
                self.body_cancelled = True
                self.ev("body-cancelled")
                raise
            self.ev("body-end")
            if case["ending"] == "raise":
                raise VErr("block")

        async def registrations(ctx: Any) -> None:
            n1 = len(regs)
            if case.get("regs2"):
                async def helper() -> None:
                    try:
                        await register(ctx, list(range(n1, len(all_regs))))
                    except BaseException as exc:
                        self.note_escape(exc)
                        raise

                async with anyio.create_task_group() as tg:
                    tg.start_soon(helper)
                    await register(ctx, list(range(n1)))
            else:
                await register(ctx, list(range(n1)))

        try:
            if case["kind"] in ("root", "component"):
                async with Context() as ctx:
                    try:
                        await block(ctx)
                    except BaseException as exc:
                        self.note_escape(exc)
                        raise
                self.ev("block-left")
            else:
                async with Context():
                    try:
                        async with Context() as ctx:
                            try:
                                await block(ctx)
                            except BaseException as exc:
                                self.note_escape(exc)
                                raise
                    finally:
                        self.ev("block-left")
        except BaseException as exc:
            if isinstance(exc, Deadlock):
                raise
            self.caught = exc
            if not any(t[1] == "block-left" for t in self.trace):
                self.ev("block-left")
        self.ev("root-left")

    def judge(self) -> Outcome:
        case = self.case
        regs = self.all_regs or case["regs"]
        tr = self.trace
        out = self.out
        order = [t[2] for t in tr if t[1] == "reg"]  # observed registration order
        place = {j: k for k, j in enumerate(order)}

        def later(i: int) -> list[int]:
            return [j for j in order if place[j] > place[i]]

        def earlier(i: int) -> list[int]:
            return [j for j in order if place[j] < place[i]]

        def pos(kind: str, i: int) -> list[int]:
            return [t[0] for t in tr if t[1] == kind and t[2] == i]

        left = [t[0] for t in tr if t[1] == "block-left"]
        left_s = left[0] if left else 10**9
        crash = any(r.get("beh") == "crash" for r in regs if r["k"] == "svc")
        svc = [(i, r) for i, r in enumerate(regs) if r["k"] == "svc"]
        if case.get("regs2"):
            out.labels.append("concurrent-registrar")
        # every task has ended before the owning block is left
        for i, r in svc:
            if not pos("task-start", i):
                if not crash:
                    self.disc("task-not-started", f"service task {i} never started")
                continue
            te = pos("task-end", i)
            root_left = [t[0] for t in tr if t[1] == "root-left"]
            # (after a crash the teardown of a nested owner is itself cancelled: only the root waits)
            limit = (root_left[0] if root_left else 10**9) if crash else left_s
            if not te or te[0] > limit:
                self.disc("task-outlives-block", f"service task {i} ({r['action']}/{r['beh']}) had not finished when the `async with` block was left")
        for p in self.snap_problems[:1]:
            self.disc("snapshot", p)
        for i, r in svc:
            if r["started"] and i in self.start_values and self.start_values[i] != ("started", i):
                self.disc("start-value", f"start_service_task returned {self.start_values[i]!r} for task {i}")
            if not r["started"] and self.start_values.get(i) is not None:
                self.disc("start-value", f"start_service_task returned {self.start_values[i]!r} for a task without task_status")
        if crash:
            ce = self.crash_exc
            if ce is not None:
                if not any(ce is l for l in flatten_exc(self.caught)):
                    self.disc("crash-vanished", f"service task raised {ce!r}; the owning root block raised {self.caught!r}")
                cr = [r for r in regs if r.get("beh") == "crash"][0]
                # (the exception leaves the task only after the task's own context has been torn down)
                delivered = [x for x in tr if x[1] == "task-crash"][0][3] + (1 if cr["inner_td"] else 0)
                body_end_t = [t[3] for t in tr if t[1] == "body-end"]
                if not self.body_cancelled and not (body_end_t and body_end_t[0] <= delivered):
                    self.disc("crash-body-not-cancelled", "a service task crashed but the block body was not cancelled")
        else:
            # ---- ordering of the teardown --------------------------------------------------
            body_end = [t[0] for t in tr if t[1] in ("body-end",)]
            be = body_end[0] if body_end else 0
            for i, r in svc:
                running_at_teardown = not pos("task-end", i) or pos("task-end", i)[0] > be
                callable_action = r["action"] in ("sync", "async", "raise_exc", "raise_base")
                acts = pos("action", i)
                if callable_action:
                    if len(acts) != 1:
                        self.disc("action-count", f"teardown callable of task {i} was invoked {len(acts)} times")
                        continue
                    # after everything registered later has completed
                    for j in (later(i) if i in place else []):
                        ends = pos("cb-end", j) + pos("late-end", j) if regs[j]["k"] != "svc" else pos("task-end", j) + pos("inner-td", j)
                        if any(e > acts[0] for e in ends):
                            self.disc("finalized-too-early", f"task {i} was told to stop before registration {j} (registered later) had finished")
                cancelled = bool(pos("task-cancelled", i))
                # when does this task's finalizer run? when everything registered later has finished
                later_done = [t[3] for t in tr for j in (later(i) if i in place else [])
                              if t[2] == j and t[1] in ("cb-end", "task-end", "inner-td", "action-end", "late-end")]
                fin_time = max(later_done + [t[3] for t in tr if t[1] == "body-end"])
                if r["beh"] == "self_end":
                    natural_end = [t[3] for t in tr if t[1] == "task-start" and t[2] == i][0] + r["d"]
                    running = None if natural_end == fin_time else natural_end > fin_time  # None: either outcome is fine
                else:
                    running = True
                cancelling = r["action"] in ("cancel", "raise_exc", "raise_base")
                want_cancel = bool(running) and cancelling
                if cancelled and not (cancelling and running is not False):
                    self.disc("cancelled-unexpectedly", f"task {i} (teardown_action={r['action']}, {r['beh']}) was cancelled")
                if want_cancel and not cancelled:
                    self.disc("not-cancelled", f"task {i} (teardown_action={r['action']}, {r['beh']}) was still running at teardown but was not cancelled")
                if cancelled and r["action"] == "cancel":
                    # the cancellation comes after everything registered later has completed
                    tc = pos("task-cancelled", i)[0]
                    for j in (later(i) if i in place else []):
                        ends = pos("cb-end", j) + pos("late-end", j) if regs[j]["k"] != "svc" else pos("task-end", j) + pos("inner-td", j)
                        if any(e > tc for e in ends):
                            self.disc("finalized-too-early", f"task {i} was cancelled before registration {j} (registered later) had finished")
                # nothing registered earlier starts its teardown before this task is completely finished
                mine = pos("task-end", i) + pos("inner-td", i)
                # whatever the task saw in its snapshot must outlive it
                for nm in sorted(self.snapshots.get(i, ())):
                    j = int(nm[1:])
                    if any(s_ < m for s_ in pos("cb-begin", j) for m in mine):
                        self.disc("snapshot-resource-torn-down-first", f"resource {nm} was visible to task {i} ({r['action']}/{r['beh']}) when it started, "
                                  f"but its teardown callback ran before the task and its context had finished")
                for j in (earlier(i) if i in place else []):
                    if regs[j]["k"] != "svc":
                        starts = pos("cb-begin", j)
                    else:
                        starts = pos("action", j) + (pos("task-cancelled", j) if regs[j]["action"] in ("cancel", "raise_exc", "raise_base") else [])
                        starts = [s for s in starts if s > be]
                    if any(s < m for s in starts for m in mine):
                        self.disc("teardown-did-not-wait", f"teardown of registration {j} (registered before task {i}) began before task {i} "
                                  f"({r['action']}/{r['beh']}, cleanup {r['c']}) and its context had finished")
                if r["inner_td"] and pos("task-start", i) and len(pos("inner-td", i)) != 1:
                    self.disc("task-context-teardown", f"teardown callback registered inside task {i}'s own context ran {len(pos('inner-td', i))} times")
            for p_, r in enumerate(regs):
                if r.get("late") and p_ in place and pos("cb-end", p_):
                    out.labels.append("service-task-started-during-teardown")
                    le = pos("late-end", p_)
                    if not le or le[0] > left_s:
                        self.disc("task-outlives-block", f"the service task started by teardown callback {p_} during the teardown had not finished "
                                  f"when the `async with` block was left")
                        continue
                    for j in earlier(p_):
                        if regs[j]["k"] != "svc":
                            starts = pos("cb-begin", j)
                        else:
                            starts = [s_ for s_ in pos("action", j) + (pos("task-cancelled", j) if regs[j]["action"] in ("cancel", "raise_exc", "raise_base") else [])
                                      if s_ > be]
                        if any(s_ < le[0] for s_ in starts):
                            self.disc("teardown-did-not-wait", f"teardown of registration {j} (registered before callback {p_}, which started a service "
                                      f"task during the teardown) began before that task had finished")
                            break
            for j, r in enumerate(regs):
                if r["k"] != "svc" and (len(pos("cb-begin", j)) != 1 or len(pos("cb-end", j)) != 1):
                    self.disc("callback-count", f"teardown callback {j} ran {len(pos('cb-begin', j))} times")
            if case["ending"] == "raise":
                if not isinstance(self.caught, VErr):
                    self.disc("block-exception", f"block raised VErr, caller saw {self.caught!r}")
            elif self.caught is not None:
                self.disc("teardown-raised", f"clean block, caller saw {self.caught!r} ({[repr(x) for x in flatten_exc(self.caught)]})")
        labs = {case["backend"], "kind=" + case["kind"], "ending=" + case["ending"], f"svc={min(len(svc), 5)}"}
        for _, r in svc:
            labs.add("action=" + r["action"])
            labs.add("beh=" + r["beh"])
        if crash:
            labs.add("crash")
        out.labels = sorted(labs | set(out.labels))
        out.nontrivial = any(i in place and earlier(i) and later(i) and r["c"] > 0 for i, r in svc)
        out.trace = [list(t) for t in tr[:80]]
        return out


def run_case(case: dict, prop: str) -> Outcome:
    it = Interp(case)
    try:
        run_virtual(case["backend"], it.main, sched_seed=case.get("sched_seed", 0))
    except Deadlock as exc:
        it.disc("deadlock", f"teardown deadlocked: {exc}; trace tail {it.trace[-4:]}")
        it.out.trace = [list(t) for t in it.trace[:80]]
        return it.out
    except HarnessError:
        raise
    except BaseException as exc:
        it.note_escape(exc)
        if it.harness_exc is not None or any(innermost_is_harness(l) and not isinstance(l, (VErr, Crash, ActErr, ActBase)) for l in flatten_exc(exc)):
            raise
        it.disc("run-raised:" + type(exc).__name__, f"run raised {short_exc(exc)}")
        return it.out
    if it.harness_exc is not None:
        raise HarnessError(f"harness exception inside the run: {short_exc(it.harness_exc)}") from it.harness_exc
    return it.judge()


def shrink_candidates(case: dict):
    for i in range(len(case["regs"])):
        c = copy.deepcopy(case)
        del c["regs"][i]
        yield c
    for key, val in (("kind", "nested"), ("ending", "return"), ("backend", "asyncio"), ("sched_seed", 0), ("body_sleep", 0)):
        if case.get(key) != val:
            c = copy.deepcopy(case)
            c[key] = val
            if key == "body_sleep" and any(r.get("beh") == "crash" for r in c["regs"]):
                continue
            yield c
    for i, r in enumerate(case["regs"]):
        if r["k"] == "svc":
            for field, val in (("inner_td", False), ("started", False), ("c", 0), ("via", "method")):
                if r.get(field) != val:
                    c = copy.deepcopy(case)
                    c["regs"][i][field] = val
                    yield c
