"""C13 - context lifecycle: usable only from entry to end of teardown, entered once.

case (type "life") = {backend, kind: root|nested, exit: clean|exception|cancel|raising_teardown,
                      pre: [ops], open: [ops], teardown: [ops], post: [ops]}
case (type "corrupt") = {backend, depth: 2-4, leave: k, root_first: bool}
op = {"op": add|addf|get|get_nowait|add_td|enter|closed, "via": method|module, "target": base|fac|missing, "optional": bool}

The complete state x operation matrix is enumerated (``exhaustive_cases``); generated
sequences put several operations into every phase of one context's life.
"""

from __future__ import annotations

import copy
import itertools
from typing import Any

import anyio
from hypothesis import strategies as st

from harness.core import HarnessError, Outcome, flatten_exc, innermost_is_harness, short_exc
from harness.gen import BACKEND, SEED, D
from harness.vloop import Deadlock, run_virtual

OPS = ["add", "addf", "get", "get_nowait", "add_td", "enter", "closed"]
EXITS = ["clean", "exception", "cancel", "raising_teardown"]
SUITE_CELLS = {("pre", "add"), ("post", "add"), ("open", "enter"), ("teardown", "addf")}


class RA:
    def __init__(self, tag: Any) -> None:
        self.tag = tag

    def __repr__(self) -> str:
        return f"<RA {self.tag}>"


class RB(RA):
    pass


class VErr(Exception):
    pass


def allowed(phase: str, op: str) -> bool:
    """The statement of C13 as a table."""
    if op == "closed":
        return True
    if op == "enter":
        return False  # the one legal entry is performed by the harness between pre and open
    if phase == "open":
        return True
    if phase == "teardown":
        return op != "addf"
    return False  # pre, post


class Interp:
    def __init__(self, case: dict) -> None:
        self.case = case
        self.out = Outcome()
        self.trace: list[Any] = []
        self.ctx: Any = None
        self.model_a: dict[str, Any] = {}  # expected get_resources(RA)
        self.model_b: dict[str, Any] = {}
        self.fac_generated = False
        self.exp_events: list[tuple] = []
        self.n = 0
        self.td_expected: list[int] = []  # markers of callbacks that must run
        self.td_forbidden: list[int] = []  # markers of callbacks whose registration failed
        self.td_ran: list[int] = []
        self.diverged = False
        self.keep: list[Any] = []
        self.harness_exc: BaseException | None = None
        self.cells: set[tuple[str, str]] = set()

    def disc(self, bucket: str, msg: str) -> None:
        self.out.add("lifecycle", "lifecycle:" + bucket, msg)

    def views_ok(self, when: str) -> None:
        try:
            a = dict(self.ctx.get_resources(RA))
            b = dict(self.ctx.get_resources(RB))
        except Exception as exc:
            self.disc("get_resources-raises", f"get_resources raised {short_exc(exc)} {when}")
            self.diverged = True
            return
        if a != self.model_a or b != self.model_b:
            self.disc("state-changed:" + when.split(" ")[1] if when.startswith("after-forbidden") else "view-mismatch",
                      f"{when}: get_resources(RA)={a} (model {self.model_a}), get_resources(RB)={b} (model {self.model_b})")
            self.diverged = True

    async def do_op(self, phase: str, op: dict) -> None:
        from asphalt.core import (
            ResourceNotFound,
            add_resource,
            add_resource_factory,
            add_teardown_callback,
            get_resource,
            get_resource_nowait,
        )

        if self.diverged:
            return
        kind = op["op"]
        ctx = self.ctx
        if phase == "post" and self.case.get("handle") and getattr(self, "handle", None) is not None and kind not in ("enter", "closed"):
            ctx = self.handle  # through the component's kept handle
        self.cells.add((phase, kind))
        ok = allowed(phase, kind)
        module = op.get("via") == "module" and phase in ("open", "teardown")
        self.n += 1
        n = self.n
        exc: BaseException | None = None
        result: Any = None
        marker = None
        try:
            if kind == "add":
                obj = RA(n)
                self.keep.append(obj)
                if module:
                    add_resource(obj, f"n{n}")
                else:
                    ctx.add_resource(obj, f"n{n}")
                result = obj
            elif kind == "addf":
                if module:
                    add_resource_factory(lambda: RB("late"), f"f{n}", types=[RB])
                else:
                    ctx.add_resource_factory(lambda: RB("late"), f"f{n}", types=[RB])
            elif kind in ("get", "get_nowait"):
                target = op.get("target", "base")
                typ, name = {"base": (RA, "base"), "fac": (RB, "fac"), "missing": (RA, "nothing")}[target]
                opt = op.get("optional", False)
                if kind == "get":
                    result = await (get_resource(typ, name, optional=opt) if module else ctx.get_resource(typ, name, optional=opt))
                else:
                    result = get_resource_nowait(typ, name, optional=opt) if module else ctx.get_resource_nowait(typ, name, optional=opt)
            elif kind == "add_td":
                marker = n
                cb = lambda m=n: self.td_ran.append(m)  # noqa: E731
                if module:
                    add_teardown_callback(cb)
                else:
                    ctx.add_teardown_callback(cb)
            elif kind == "enter":
                await ctx.__aenter__()
            elif kind == "closed":
                result = ctx.closed
            else:
                raise HarnessError(kind)
        except HarnessError:
            raise
        except Exception as e:
            exc = e
        desc = f"{kind}{' via module' if module else ''}{' ' + op.get('target', '') if kind.startswith('get') else ''} in state '{phase}'"
        self.trace.append([phase, kind, "raised " + type(exc).__name__ if exc else "ok"])

        if kind == "closed":
            want = phase in ("teardown", "post")
            if exc is not None:
                self.disc("closed-raises", f"ctx.closed raised {short_exc(exc)} in state '{phase}'")
            elif result is not want:
                self.disc(f"closed-flag:{phase}", f"ctx.closed is {result!r} in state '{phase}' ({self.case.get('exit')}), expected {want}")
            return
        if not ok:
            if exc is None:
                self.disc(f"forbidden-op-allowed:{phase}:{kind}", f"{desc} succeeded; it must raise RuntimeError")
                self.diverged = True
                return
            if not isinstance(exc, RuntimeError):
                self.disc(f"forbidden-op-wrong-exception:{phase}:{kind}", f"{desc} raised {short_exc(exc)}, expected RuntimeError")
                return
            if marker is not None:
                self.td_forbidden.append(marker)
            self.views_ok(f"after-forbidden {kind} in state '{phase}'")
            return
        # ---- allowed operation ----
        if kind == "add":
            if exc is not None:
                self.disc(f"allowed-op-raised:{phase}:{kind}", f"{desc} raised {short_exc(exc)}")
                self.diverged = True
                return
            self.model_a[f"n{n}"] = result
            self.exp_events.append((frozenset({"RA"}), f"n{n}", False))
        elif kind == "addf":
            if exc is not None:
                self.disc(f"allowed-op-raised:{phase}:{kind}", f"{desc} raised {short_exc(exc)}")
                self.diverged = True
                return
            self.exp_events.append((frozenset({"RB"}), f"f{n}", True))
        elif kind == "add_td":
            if exc is not None:
                self.disc(f"allowed-op-raised:{phase}:{kind}", f"{desc} raised {short_exc(exc)}")
                self.diverged = True
                return
            self.td_expected.append(marker)  # type: ignore[arg-type]
        else:
            target = op.get("target", "base")
            if target == "missing":
                if op.get("optional"):
                    if exc is not None or result is not None:
                        self.disc(f"lookup-wrong:{phase}", f"{desc} optional gave {exc or result!r}, expected None")
                elif not isinstance(exc, ResourceNotFound):
                    self.disc(f"lookup-wrong:{phase}", f"{desc} gave {short_exc(exc) if exc else result!r}, expected ResourceNotFound")
            elif target == "base":
                if exc is not None or result is not self.base:
                    self.disc(f"allowed-op-raised:{phase}:{kind}" if exc else f"lookup-wrong:{phase}",
                              f"{desc} gave {short_exc(exc) if exc else result!r}, expected the resource")
                    self.diverged = exc is not None
            else:  # factory: generated on first use, then stable
                if exc is not None or not isinstance(result, RB):
                    self.disc(f"allowed-op-raised:{phase}:{kind}" if exc else f"lookup-wrong:{phase}",
                              f"{desc} gave {short_exc(exc) if exc else result!r}, expected the factory's product")
                    self.diverged = exc is not None
                else:
                    if not self.fac_generated:
                        self.fac_generated = True
                        self.model_b["fac"] = result
                        self.exp_events.append((frozenset({"RB"}), "fac", False))
                    elif result is not self.model_b["fac"]:
                        self.disc(f"lookup-wrong:{phase}", f"{desc} returned another object than before")
        if not self.diverged:
            self.views_ok(f"after {kind} in state '{phase}'")

    async def life(self) -> None:
        from asphalt.core import Context, ResourceEvent

        case = self.case
        caught: BaseException | None = None

        async def run() -> None:
            nonlocal caught
            ctx = self.ctx = Context()
            cm = ctx.resource_added.stream_events(max_queue_size=10000)
            stream = await cm.__aenter__()
            for op in case["pre"]:
                await self.do_op("pre", op)
            if case.get("never_enter") or self.diverged:
                await cm.__aexit__(None, None, None)
                return
            try:
                with anyio.CancelScope() as scope:
                    async with ctx:
                        # fixtures for lookups
                        self.base = RA("base")
                        ctx.add_resource(self.base, "base")
                        ctx.add_resource_factory(lambda: RB("gen"), "fac", types=[RB])
                        self.model_a["base"] = self.base
                        self.exp_events += [(frozenset({"RA"}), "base", False), (frozenset({"RB"}), "fac", True)]
                        if case["exit"] == "raising_teardown":
                            def bad() -> None:
                                raise VErr("teardown")
                            ctx.add_teardown_callback(bad)
                        if case.get("handle"):
                            # a component keeps the context object it saw in start(); using it later is
                            # using this context (it delegates)
                            from asphalt.core import Component, current_context, start_component

                            keeper = self

                            class Keeper(Component):
                                async def start(self) -> None:
                                    keeper.handle = current_context()

                            await start_component(Keeper, timeout=None)
                        for op in case["open"]:
                            await self.do_op("open", op)

                        async def td_phase() -> None:
                            try:
                                for op in case["teardown"]:
                                    await self.do_op("teardown", op)
                            except BaseException as exc:
                                self.note_escape(exc)
                                raise

                        if not self.diverged:
                            ctx.add_teardown_callback(td_phase)
                        if case["exit"] == "exception":
                            raise VErr("block")
                        if case["exit"] == "cancel":
                            scope.cancel()
                            await anyio.lowlevel.checkpoint()
                            raise HarnessError("not cancelled")
            except BaseException as exc:
                self.note_escape(exc)
                caught = exc
            self.trace.append(["left", repr(caught)[:80]])
            for op in case["post"]:
                await self.do_op("post", op)
            # events: exactly the successful publications
            if not self.diverged:
                sentinel = ResourceEvent((), "__sentinel__", None, False)
                ctx.resource_added.dispatch(sentinel)
                got = []
                while True:
                    ev = await stream.__anext__()
                    if ev is sentinel:
                        break
                    got.append((frozenset(t.__name__ for t in ev.resource_types), ev.resource_name, bool(ev.is_factory)))
                if got != self.exp_events:
                    self.disc("events", f"resource_added events {got}, expected {self.exp_events}")
            await cm.__aexit__(None, None, None)
            for m in self.td_forbidden:
                if m in self.td_ran:
                    self.disc("forbidden-callback-ran", f"teardown callback {m} whose registration raised was run")
            if not self.diverged:
                for m in self.td_expected:
                    if self.td_ran.count(m) != 1:
                        self.disc("registered-callback-not-run", f"teardown callback {m} ran {self.td_ran.count(m)} times")

        if case["kind"] == "nested":
            async with Context():
                await run()
        else:
            await run()

    async def corrupt(self) -> None:
        from asphalt.core import Context

        case = self.case
        depth, k = case["depth"], case["leave"]
        ctxs: list[Any] = []
        errors: list[BaseException] = []

        async def run() -> None:
            for i in range(depth):
                cls = Context
                if case.get("falsy_ctx") and i % 2 == 0:
                    from harness.engines.ctxstack import empty_context_class

                    cls = empty_context_class()  # (a context whose truth value is False is a context like any other)
                if ctxs and case.get("via_component"):
                    # the child is created from the context object a component kept (what current_context() gave
                    # it during start()), after that component has started: the parent is the context behind it
                    from asphalt.core import Component, current_context, start_component

                    kept: dict[str, Any] = {}

                    class Keeper(Component):
                        async def start(self) -> None:
                            kept["ctx"] = current_context()

                    await start_component(Keeper, timeout=None)
                    c = cls(kept["ctx"])
                else:
                    c = cls(ctxs[-1]) if (ctxs and case.get("explicit_parent")) else cls()
                await c.__aenter__()
                ctxs.append(c)
            if case.get("leak_in_task"):
                # the open child is leaked by a task that has finished; nobody references it any more
                import gc

                parent = ctxs[-1]

                async def leaker() -> None:
                    await Context(parent).__aenter__()

                async with anyio.create_task_group() as tg:
                    tg.start_soon(leaker)
                gc.collect(1)  # (the leaked objects are young; a full collection of a large heap costs tens of ms)
                k_local = depth - 1
            else:
                k_local = k
            victim = ctxs[k_local]
            try:
                await victim.__aexit__(None, None, None)
            except BaseException as exc:
                errors.append(exc)
            self.trace.append(["left", k_local, "of", depth, [repr(e)[:80] for e in errors]])
            if not errors:
                self.disc("stack-corruption-ignored" + (":leaked-by-finished-task" if case.get("leak_in_task") else ""),
                          f"context #{k_local} of a chain of {depth} was left while its child was still open and nothing was raised")
            elif not any(isinstance(l, RuntimeError) for l in flatten_exc(errors[0])):
                self.disc("stack-corruption-wrong-error", f"leaving #{k_local} with an open child raised {errors[0]!r}")
            if not victim.closed:
                self.disc("closed-flag:post", "context left with an open child does not report closed")
            # the block has been left: the context must refuse further use like any closed context
            for what, call in (("add_resource", lambda: victim.add_resource(RA("late"), "late")),
                               ("get_resource_nowait", lambda: victim.get_resource_nowait(RA, "late", optional=True)),
                               ("add_teardown_callback", lambda: victim.add_teardown_callback(lambda: None))):
                try:
                    call()
                except RuntimeError:
                    continue
                except Exception as exc:
                    self.disc(f"forbidden-op-wrong-exception:post:{what}", f"{what} on a context left with an open child raised {short_exc(exc)}")
                    continue
                self.disc(f"forbidden-op-allowed:post:{what}", f"{what} on a context that was left (with an open child) succeeded; it must raise RuntimeError")
                break
            # best-effort unwind of the rest
            for c in reversed(ctxs):
                if c is not victim:
                    try:
                        await c.__aexit__(None, None, None)
                    except BaseException:
                        pass

        if case.get("outer_root"):
            try:
                async with Context():
                    await run()
            except BaseException as exc:
                self.note_escape(exc)
        else:
            await run()

    def note_escape(self, exc: BaseException) -> None:
        for leaf in flatten_exc(exc):
            if isinstance(leaf, HarnessError) or (isinstance(leaf, Exception) and innermost_is_harness(leaf)
                                                  and not isinstance(leaf, VErr)):
                if self.harness_exc is None:
                    self.harness_exc = leaf


async def _scale(it: "Interp") -> None:
    """Far beyond the usual sizes: dozens of nested contexts, or a chain of dozens of teardown callbacks each of
    which registers the next - every one of them is a context / a phase of teardown like any other."""
    from asphalt.core import Context

    case = it.case
    n = case["n"]
    if case["shape"] == "nest":
        ctxs: list[Any] = []
        try:
            for k in range(n):
                c = Context()
                try:
                    await c.__aenter__()
                except Exception as exc:
                    it.disc("allowed-op-raised:inactive:enter", f"entering a new context at nesting level {k + 1} raised {short_exc(exc)}")
                    for what, call in (("add_resource", lambda: c.add_resource(RA("x"), "late")), ("closed", lambda: c.closed)):
                        try:
                            r = call()
                        except RuntimeError:
                            continue
                        if what == "add_resource":
                            it.disc("forbidden-op-allowed:inactive:add", "add_resource on the context whose entry failed succeeded")
                        elif r:
                            it.disc("closed-flag:inactive", "the context whose entry failed reports closed")
                    break
                ctxs.append(c)
                try:
                    c.add_resource(RA(("level", k)), f"r{k}")
                    c.add_teardown_callback(lambda: None)
                    if c.get_resource_nowait(RA, f"r{k}") is None or c.closed:
                        it.disc("open-state", f"context at level {k + 1} does not behave like an open context")
                except Exception as exc:
                    it.disc("allowed-op-raised:open:add", f"an operation in the open context at level {k + 1} raised {short_exc(exc)}")
                    break
        finally:
            for c in reversed(ctxs):
                try:
                    await c.__aexit__(None, None, None)
                except Exception as exc:
                    it.disc("exit-raised", f"leaving a context of the chain raised {short_exc(exc)}")
                    break
        return
    ran: list[int] = []
    async with Context():
        async with Context() as ctx:
            def make(k: int) -> Any:
                def cb() -> None:
                    ran.append(k)
                    try:
                        ctx.add_resource(RA(("td", k)), f"t{k}")
                        if ctx.get_resource_nowait(RA, f"t{k}") is None:
                            it.disc("teardown-state", f"teardown callback #{k}: the resource just added is not found")
                        if not ctx.closed:  # ("closed is false until teardown begins and true from then on")
                            it.disc("closed-flag:teardown", f"teardown callback #{k}: `closed` is false although teardown has begun")
                        if k + 1 < n:
                            ctx.add_teardown_callback(make(k + 1))
                    except Exception as exc:
                        it.disc("allowed-op-raised:teardown:add", f"teardown callback #{k} (each registers the next): an allowed operation raised "
                                f"{short_exc(exc)}")
                return cb

            ctx.add_teardown_callback(make(0))
    if ran != list(range(n)) and not it.out.discs:
        it.disc("teardown-chain", f"of a chain of {n} teardown callbacks (each registers the next) {len(ran)} ran")


def run_case(case: dict, prop: str) -> Outcome:
    it = Interp(case)
    if case.get("type") == "scale":
        async def fn() -> None:
            try:
                await _scale(it)
            except BaseException as exc:
                it.note_escape(exc)
                raise
    else:
        fn = it.corrupt if case.get("type") == "corrupt" else it.life
    try:
        run_virtual(case["backend"], fn, sched_seed=case.get("sched_seed", 0))
    except Deadlock as exc:
        it.disc("deadlock", f"deadlock: {exc}")
    except HarnessError:
        raise
    except BaseException as exc:
        if it.harness_exc is not None or any(innermost_is_harness(l) for l in flatten_exc(exc)):
            raise
        it.disc("run-raised:" + type(exc).__name__, f"run raised {short_exc(exc)}; trace {it.trace[-3:]}")
    if it.harness_exc is not None:
        raise HarnessError(f"harness exception inside the run: {short_exc(it.harness_exc)}") from it.harness_exc
    out = it.out
    out.trace = it.trace[:60]
    if case.get("type") == "scale":
        out.labels = [case["backend"], "scale:" + case["shape"]]
        out.nontrivial = True
    elif case.get("type") == "corrupt":
        out.labels = [case["backend"], "corrupt", f"depth={case['depth']}"]
        out.nontrivial = True
    else:
        labs = {case["backend"], "kind=" + case["kind"], "exit=" + case["exit"]}
        for ph, op in it.cells:
            labs.add(f"cell={ph}:{op}")
        out.labels = sorted(labs)
        out.nontrivial = any(c not in SUITE_CELLS for c in it.cells)
    return out


# ------------------------------------------------------------------------------------
# generation
# ------------------------------------------------------------------------------------


def _op(d: D, phase: str) -> dict:
    kind = d.pick(OPS)
    if phase == "pre" and kind == "enter":
        kind = "closed"  # the one legal entry is performed by the harness itself
    op: dict[str, Any] = {"op": kind}
    if phase in ("open", "teardown") and kind != "enter" and kind != "closed" and d.pct(35):
        op["via"] = "module"
    if kind in ("get", "get_nowait"):
        op["target"] = d.pick(["base", "fac", "missing"])
        if op["target"] == "missing":
            op["optional"] = d.bool()
    return op


@st.composite
def cases(draw: Any, tier: str) -> dict:
    d = D(draw)
    if d.pct(12):
        depth = d.int(2, 4)
        return {"type": "corrupt", "backend": draw(BACKEND), "sched_seed": 0, "depth": depth, "leave": d.int(0, depth - 2),
                "explicit_parent": d.bool(), "outer_root": d.bool(), "leak_in_task": d.pct(35), "falsy_ctx": d.pct(25),
                "via_component": d.pct(20)}
    hi = 3 if tier == "quick" else 5
    c: dict[str, Any] = {"type": "life", "backend": draw(BACKEND), "sched_seed": draw(SEED), "kind": d.pick(["root", "nested"]),
                         "exit": d.pick(EXITS)}
    for ph in ("pre", "open", "teardown", "post"):
        c[ph] = [_op(d, ph) for _ in range(d.int(0, hi))]
    if d.pct(8):
        c["never_enter"] = True
    elif d.pct(25):
        c["handle"] = True
    return c


@st.composite
def scale_cases(draw: Any) -> dict:
    d = D(draw)
    return {"type": "scale", "backend": draw(BACKEND), "sched_seed": draw(SEED), "shape": d.pick(["nest", "tdchain"]),
            "n": d.pick([20, 33, 40, 48, 70])}


def strategy(prop: str, tier: str) -> st.SearchStrategy:
    return st.one_of(*([cases(tier)] * 40 + [scale_cases()]))


def exhaustive_cases(prop: str, tier: str, w: int, n: int):
    """The complete matrix: operation x lifecycle state x exit x root/nested x backend."""
    i = 0
    variants: list[dict] = []
    for kind in OPS:
        if kind in ("get", "get_nowait"):
            variants += [{"op": kind, "target": t} for t in ("base", "fac", "missing")]
            variants.append({"op": kind, "target": "missing", "optional": True})
        else:
            variants.append({"op": kind})
    for backend, ckind, ex, ph, op in itertools.product(("asyncio", "trio"), ("root", "nested"), EXITS,
                                                        ("pre", "open", "teardown", "post"), variants):
        if ph == "pre" and op["op"] == "enter":
            continue
        vias = ["method", "module"] if (ph in ("open", "teardown") and op["op"] not in ("enter", "closed")) else ["method"]
        for via in vias:
            i += 1
            if i % n != w:
                continue
            c = {"type": "life", "backend": backend, "sched_seed": 0, "kind": ckind, "exit": ex,
                 "pre": [], "open": [], "teardown": [], "post": []}
            o = dict(op)
            if via == "module":
                o["via"] = "module"
            c[ph] = [o]
            yield c
    for backend, depth in itertools.product(("asyncio", "trio"), (2, 3, 4)):
        for k in range(depth - 1):
            for explicit, outer, leak in itertools.product((False, True), (False, True), (False, True)):
                i += 1
                if i % n != w:
                    continue
                yield {"type": "corrupt", "backend": backend, "sched_seed": 0, "depth": depth, "leave": k,
                       "explicit_parent": explicit, "outer_root": outer, "leak_in_task": leak}


def shrink_candidates(case: dict):
    if case.get("type") == "scale":
        for n in (20, 33, 40, 48):
            if n < case["n"]:
                yield dict(case, n=n)
        for key, val in (("backend", "asyncio"), ("sched_seed", 0)):
            if case.get(key) != val:
                yield dict(case, **{key: val})
        return
    if case.get("type") == "corrupt":
        return
    for ph in ("pre", "open", "teardown", "post"):
        for i in range(len(case[ph])):
            c = copy.deepcopy(case)
            del c[ph][i]
            yield c
    for key, val in (("kind", "nested"), ("exit", "clean"), ("backend", "asyncio"), ("sched_seed", 0)):
        if case.get(key) != val:
            c = copy.deepcopy(case)
            c[key] = val
            yield c
