"""C12 - current_context() follows strict per-task stack discipline.

case = {backend, sched_seed, root: bool, script: [item...]}
item = {"op": "observe"} | {"op": "cp", "n": k} | {"op": "new"}                      (create, check parent, drop)
     | {"op": "block", "exit": return|exception|cancel|raising_td|base_exception, "body": [item...]}
     | {"op": "par", "how": tg|service|factory, "scripts": [[item...], ...]}
     | {"op": "component", "prepare": [item...]|None, "start": [item...]|None, "child": {...}|None}
"""

from __future__ import annotations

import copy
from typing import Any

import anyio
from hypothesis import strategies as st

from harness.core import HarnessError, Outcome, flatten_exc, innermost_is_harness, short_exc
from harness.gen import BACKEND, SEED, D
from harness.vloop import Deadlock, checkpoints, run_virtual

EXITS = ["return", "exception", "cancel", "raising_td", "base_exception"]


class VErr(Exception):
    pass


class VBase(BaseException):
    pass


def _items(d: D, depth: int, nest: int, budget: list[int], in_component: bool = False) -> list[dict]:
    out: list[dict] = []
    for _ in range(d.int(1, 5)):
        if budget[0] <= 0:
            break
        budget[0] -= 1
        kind = d.weighted([("observe", 30), ("cp", 18), ("new", 10), ("block", 24 if nest < 4 else 0),
                           ("par", 12 if depth < 3 else 0), ("component", 5 if (depth < 2 and not in_component) else 0)])
        if kind == "observe":
            out.append({"op": "observe"})
        elif kind == "cp":
            out.append({"op": "cp", "n": d.int(1, 3)})
        elif kind == "new":
            out.append({"op": "new", "parent": d.int(0, 3) if d.pct(30) else None, "stash": d.pct(50)})
        elif kind == "block":
            out.append({"op": "block", "exit": d.weighted([("return", 35), ("exception", 20), ("cancel", 20), ("raising_td", 15),
                                                           ("base_exception", 10)]),
                        # explicit parent = the k-th context below the top (if there are that many)
                        "parent": d.int(1, 3) if d.pct(25) else None,
                        "td_observe": d.pct(30),
                        # enter a context that was constructed earlier (under another current context)
                        "use_prebuilt": d.pct(20),
                        "body": _items(d, depth, nest + 1, budget, in_component)})
        elif kind == "par":
            how = d.weighted([("tg", 60), ("service", 20), ("factory", 20)])
            n = d.int(1, 3)
            out.append({"op": "par", "how": how, "owner": d.int(1, 3) if d.pct(35) else None,
                        "scripts": [_items(d, depth + 1, nest, budget, in_component) for _ in range(n)]})
        else:
            comp: dict[str, Any] = {"op": "component",
                                    "prepare": _items(d, depth + 1, nest, budget, True) if d.bool() else None,
                                    "start": _items(d, depth + 1, nest, budget, True) if d.bool() else None,
                                    "child": None}
            if d.pct(40):
                comp["child"] = {"prepare": _items(d, depth + 1, nest, budget, True) if d.bool() else None,
                                 "start": _items(d, depth + 1, nest, budget, True)}
            out.append(comp)
    return out


@st.composite
def cases(draw: Any, tier: str) -> dict:
    d = D(draw)
    budget = [30 if tier == "quick" else 60]
    return {"backend": draw(BACKEND), "sched_seed": draw(SEED), "root": d.pct(80), "script": _items(d, 0, 0, budget)}


@st.composite
def deep_cases(draw: Any) -> dict:
    """One task nests N contexts (N well beyond what the scripted cases reach) and unwinds them again."""
    d = D(draw)
    return {"kind": "deep", "backend": draw(BACKEND), "sched_seed": draw(SEED), "depth": d.pick([20, 33, 40, 65, 70, 90]),
            "exit": d.pick(["return", "raise"]), "cp": d.bool(), "explicit_every": d.pick([0, 0, 7])}


def strategy(prop: str, tier: str) -> st.SearchStrategy:
    # a few per cent of the cases are deep chains ("for all nesting depths")
    return st.one_of(*([cases(tier)] * 30 + [deep_cases()]))


def run_deep(case: dict) -> Outcome:
    out = Outcome()
    st_: dict[str, Any] = {"harness": None}

    def disc(bucket: str, msg: str) -> None:
        out.add("ctxstack", "ctxstack:deep-" + bucket, msg + f" [one task, {case['depth']} nested contexts, unwinding by {case['exit']}]")

    async def main() -> None:
        from asphalt.core import Context, NoCurrentContext, current_context

        N = case["depth"]
        chain: list[Any] = []

        def cur() -> Any:
            try:
                return current_context()
            except NoCurrentContext:
                return None

        def check(where: str) -> bool:
            want = chain[-1] if chain else None
            got = cur()
            if got is not want:
                disc("current", f"{where}: current_context() is {'None' if got is None else 'level ' + str(chain.index(got) + 1 if got in chain else '?')}"
                     f", expected {'None' if want is None else 'level ' + str(len(chain))}")
                return False
            return True

        async def level(k: int) -> None:
            parent = chain[-1] if chain else None
            explicit = case["explicit_every"] and k % case["explicit_every"] == 0 and parent is not None
            try:
                c = Context(parent) if explicit else Context()
            except Exception as exc:
                disc("create-raised", f"creating the context of level {k} raised {short_exc(exc)}")
                raise VErr("stop") from None
            if c.parent is not parent:
                disc("parent", f"the context of level {k} has parent {c.parent!r}, expected level {k - 1}")
                raise VErr("stop")
            try:
                await c.__aenter__()
            except Exception as exc:
                disc("enter-raised", f"entering level {k} raised {short_exc(exc)}")
                if not check(f"after the failed entry of level {k}"):
                    pass
                raise VErr("stop") from None
            chain.append(c)
            ok = True
            try:
                if not check(f"inside level {k}"):
                    raise VErr("stop")
                if case["cp"]:
                    await anyio.lowlevel.checkpoint()
                if k < N:
                    await level(k + 1)
                elif case["exit"] == "raise":
                    raise VErr("unwind")
            except BaseException as exc:
                ok = False
                chain.pop()
                await c.__aexit__(type(exc), exc, exc.__traceback__)
                if not out.discs:
                    check(f"after leaving level {k} by an exception")
                raise
            if ok:
                chain.pop()
                await c.__aexit__(None, None, None)
                if not out.discs and not check(f"after leaving level {k}"):
                    raise VErr("stop")

        try:
            await level(1)
        except VErr:
            pass

    async def guarded() -> None:
        try:
            await main()
        except BaseException as exc:
            for leaf in flatten_exc(exc):
                if isinstance(leaf, HarnessError) or (isinstance(leaf, Exception) and innermost_is_harness(leaf) and not isinstance(leaf, (VErr, VBase))):
                    st_["harness"] = leaf
            raise

    try:
        run_virtual(case["backend"], guarded, sched_seed=case.get("sched_seed", 0))
    except Deadlock as exc:
        disc("deadlock", f"deadlock: {exc}")
    except BaseException as exc:
        if st_["harness"] is not None or isinstance(exc, HarnessError):
            raise HarnessError(f"harness exception inside the run: {short_exc(st_['harness'] or exc)}") from exc
        if not out.discs:
            disc("run-raised:" + type(flatten_exc(exc)[0]).__name__, f"run raised {short_exc(exc)}")
    out.labels = sorted({case["backend"], "deep-chain", f"nest>={min(case['depth'], 64)}"})
    out.nontrivial = True
    out.trace = []
    return out


_EMPTY_CTX: list = []


def empty_context_class() -> type:
    """A Context subclass whose instances have a False truth value (a container-like context that is
    still empty): it is a context like any other."""
    if not _EMPTY_CTX:
        from asphalt.core import Context

        class EmptyContext(Context):
            def __len__(self) -> int:
                return 0

        _EMPTY_CTX.append(EmptyContext)
    return _EMPTY_CTX[0]


class Interp:
    n_created = 0

    def ctx_cls(self) -> type:
        from asphalt.core import Context

        self.n_created += 1
        if self.n_created % 4 == 2:
            self.labels.add("falsy-context-subclass")
            return empty_context_class()
        return Context

    def __init__(self, case: dict) -> None:
        self.case = case
        self.out = Outcome()
        self.trace: list[Any] = []
        self.harness_exc: BaseException | None = None
        self.n_tasks = 1
        self.max_nest = 0
        self.nonreturn_deep = False
        self.concurrent_blocks = False
        self.active_block_tasks = 0
        self.stop = False
        self.labels: set[str] = set()
        self.prebuilt: dict[int, list] = {}  # per task (keyed by its stack object): contexts constructed but not entered

    def disc(self, bucket: str, msg: str) -> None:
        self.out.add("ctxstack", "ctxstack:" + bucket, msg)
        self.stop = True

    def observe(self, stack: list[Any], where: str, in_component: int = -1) -> None:
        from asphalt.core import NoCurrentContext, current_context

        try:
            cur = current_context()
        except NoCurrentContext:
            cur = None
        except Exception as exc:
            self.disc("current_context-raises", f"{where}: current_context() raised {short_exc(exc)}")
            return
        want = stack[-1] if stack else None
        if in_component >= 0 and len(stack) == in_component:
            # inside component code, with no context of its own entered, the current context is
            # the component's own (internal) context; only its delegation target is specified -
            # and, like any context, its parent is the context that was current when it was created
            ok = cur is not None and getattr(cur, "_context", cur) is want
            if ok and cur is not want and cur.parent is not want:
                self.disc("new-context-parent:component-context", f"{where}: the component's own context reports parent {_nm(cur.parent)}; "
                          f"start_component was called in {_nm(want)}")
                return
        else:
            ok = cur is want
        self.trace.append(["observe", where, _nm(cur), _nm(want)])
        if not ok:
            if cur is None:
                b = "lost"
            elif want is None:
                b = "leaked-after-exit"
            elif any(cur is s for s in stack):
                b = "not-restored"
            else:
                b = "foreign-context"
            self.disc(b, f"{where}: current_context() is {_nm(cur)}, the task's own stack says {_nm(want)} (stack {[_nm(s) for s in stack]})")

    async def run(self, stack: list[Any], items: list[dict], where: str, in_component: int = -1) -> None:
        from asphalt.core import Component, Context, start_component
        from asphalt.core import start_background_task_factory, start_service_task

        for k, it in enumerate(items):
            if self.stop:
                return
            op = it["op"]
            here = f"{where}/{k}"
            if op == "observe":
                self.observe(stack, here, in_component)
            elif op == "cp":
                await checkpoints(it["n"])
                self.observe(stack, here + "(after checkpoints)", in_component)
            elif op == "new":
                k = it.get("parent")
                if k is not None and stack:
                    want = stack[max(0, len(stack) - 1 - k)]
                    c = self.ctx_cls()(want)
                else:
                    c = self.ctx_cls()()
                    want = stack[-1] if stack else None
                if c.parent is not want:
                    self.disc("new-context-parent" + (":component" if in_component >= 0 else ""),
                              f"{here}: Context() created with parent {_nm(c.parent)}, the creating task's current context is {_nm(want)}")
                elif it.get("stash") and want is not None:
                    self.prebuilt.setdefault(id(stack), []).append((c, want))
            elif op == "block":
                await self.block(stack, it, here, in_component)
            elif op == "par":
                await self.par(stack, it, here, in_component)
            elif op == "component":
                if not stack:
                    continue  # start_component needs a current context
                interp = self
                base = list(stack)

                def make(spec: dict, name: str, child: Any) -> type:
                    ns: dict[str, Any] = {}
                    if child is not None:
                        def __init__(self: Any) -> None:
                            self.add_component("kid", child)
                        ns["__init__"] = __init__
                    for ph in ("prepare", "start"):
                        if spec.get(ph) is not None:
                            async def fn(self: Any, ph: str = ph, spec: dict = spec) -> None:
                                try:
                                    st2 = list(base)
                                    await interp.run(st2, spec[ph], f"{here}:{name}.{ph}", len(base))
                                except BaseException as exc:
                                    interp.note_escape(exc)
                                    raise
                            ns[ph] = fn
                    return type(name, (Component,), ns)

                child_cls = make(it["child"], "Kid", None) if it.get("child") else None
                cls = make(it, "Comp", child_cls)
                self.labels.add("component")
                try:
                    await start_component(cls, timeout=None)
                except Exception as exc:
                    self.note_escape(exc)
                    if self.harness_exc is None:
                        self.disc("start_component-raised", f"{here}: start_component raised {short_exc(exc)}")
                self.observe(stack, here + "(after start_component)", in_component)
            else:
                raise HarnessError(op)

    async def block(self, stack: list[Any], it: dict, here: str, in_component: int) -> None:
        from asphalt.core import Context

        exit_ = it["exit"]
        before = list(stack)
        k = it.get("parent")
        stash = self.prebuilt.get(id(stack), [])
        usable = [(c_, p_) for (c_, p_) in stash if any(p_ is s_ for s_ in stack)]
        if it.get("use_prebuilt") and usable:
            c, want_parent = usable[-1]
            stash.remove((c, want_parent))
            self.labels.add("prebuilt-context")
        elif k is not None and len(stack) >= 2:
            want_parent = stack[max(0, len(stack) - 1 - k)]
            c = self.ctx_cls()(want_parent)
            self.labels.add("explicit-parent")
        else:
            c = self.ctx_cls()()
            want_parent = stack[-1] if stack else None
        if c.parent is not want_parent:
            self.disc("new-context-parent" + (":component" if in_component >= 0 else ""),
                      f"{here}: Context() created with parent {_nm(c.parent)}, current is {_nm(want_parent)}")
            return
        self.max_nest = max(self.max_nest, len(stack) + 1)
        self.active_block_tasks += 1
        if self.active_block_tasks >= 2:
            self.concurrent_blocks = True
        if exit_ != "return" and len(stack) + 1 >= 2:
            self.nonreturn_deep = True
        caught: BaseException | None = None
        try:
            with anyio.CancelScope() as scope:
                async with c:
                    stack.append(c)
                    self.observe(stack, here + "(entered)", -1)
                    if exit_ == "raising_td":
                        def bad() -> None:
                            raise VErr("teardown")
                        c.add_teardown_callback(bad)
                    if it.get("td_observe"):
                        # teardown callbacks run while the block is being left: still inside it
                        snapshot = list(stack)

                        def during_teardown() -> None:
                            self.observe(snapshot, here + "(inside a teardown callback)", -1)
                            fresh = Context()  # created while the context is being torn down: it is still current
                            if fresh.parent is not snapshot[-1] and not self.stop:
                                self.disc("new-context-parent:during-teardown", f"{here}: Context() created inside a teardown callback has parent "
                                          f"{_nm(fresh.parent)}, the context being torn down (still current) is {_nm(snapshot[-1])}")

                        c.add_teardown_callback(during_teardown)
                    await self.run(stack, it["body"], here, in_component)
                    if not self.stop:
                        self.observe(stack, here + "(end of body)", -1)
                    if exit_ == "exception":
                        raise VErr("block")
                    if exit_ == "base_exception":
                        raise VBase("block")
                    if exit_ == "cancel":
                        scope.cancel()
                        await anyio.lowlevel.checkpoint()
        except (VErr, VBase) as exc:
            caught = exc
        except BaseExceptionGroup as exc:
            leaves = flatten_exc(exc)
            if all(isinstance(l, (VErr, VBase)) for l in leaves):
                caught = exc
            else:
                raise
        finally:
            self.active_block_tasks -= 1
            if stack and stack[-1] is c:
                stack.pop()
        if exit_ in ("exception", "raising_td", "base_exception") and caught is None and not self.stop:
            self.disc("block-exception-vanished", f"{here}: block left by {exit_} but nothing was raised")
        if stack != before:
            raise HarnessError("model stack corrupted")
        if not self.stop:
            self.observe(stack, here + f"(after leaving by {exit_})", in_component)

    async def par(self, stack: list[Any], it: dict, here: str, in_component: int) -> None:
        from asphalt.core import start_background_task_factory, start_service_task

        how = it["how"]
        interp = self
        self.n_tasks += len(it["scripts"])
        self.labels.add("par:" + how)
        if how == "tg" or not stack:
            async def child(script: list, idx: int) -> None:
                try:
                    st2 = list(stack)  # a task inherits the context current where it was spawned
                    interp.observe(st2, f"{here}[{idx}](task start)", in_component)
                    await interp.run(st2, script, f"{here}[{idx}]", in_component)
                except BaseException as exc:
                    interp.note_escape(exc)
                    raise

            async with anyio.create_task_group() as tg:
                for idx, script in enumerate(it["scripts"]):
                    tg.start_soon(child, script, idx)
            self.observe(stack, here + "(after task group)", in_component)
            return
        owner = stack[-1]
        ko = it.get("owner")
        if ko is not None and len(stack) >= 2 and in_component < 0:
            owner = stack[max(0, len(stack) - 1 - ko)]  # started through a context that is not the current one
            self.labels.add("owner-not-current")
        done = [anyio.Event() for _ in it["scripts"]]

        def make(script: list, idx: int) -> Any:
            async def body() -> None:
                from asphalt.core import current_context

                try:
                    cur = current_context()
                    # service / factory tasks run in a fresh context inheriting from the owner
                    chain = []
                    p = cur
                    while p is not None and len(chain) < 4:
                        chain.append(p)
                        p = p.parent
                    if cur is owner or not any(x is owner for x in chain) or (how == "service" and cur.parent is not owner):
                        interp.disc(f"{how}-task-context", f"{here}[{idx}]: {how} task runs in {_nm(cur)} (parents {[_nm(x) for x in chain[1:]]}), "
                                    f"expected a fresh context inheriting from {_nm(owner)}")
                        return
                    if any(cur is s for s in stack):
                        interp.disc(f"{how}-task-context", f"{here}[{idx}]: {how} task shares a context of its spawner")
                        return
                    st2 = list(stack) + [cur]
                    await interp.run(st2, script, f"{here}[{idx}]", -1)
                except BaseException as exc:
                    interp.note_escape(exc)
                    raise
                finally:
                    done[idx].set()
            return body

        try:
            if how == "service":
                for idx, script in enumerate(it["scripts"]):
                    if owner is stack[-1] and idx % 2 == 0:
                        await start_service_task(make(script, idx), f"svc{idx}", teardown_action=None)
                    else:
                        await owner.start_service_task(make(script, idx), f"svc{idx}", teardown_action=None)
            else:
                factory = await (start_background_task_factory() if owner is stack[-1] else owner.start_background_task_factory())
                for idx, script in enumerate(it["scripts"]):
                    if idx % 2:
                        await factory.start_task(make(script, idx))
                    else:
                        factory.start_task_soon(make(script, idx))
        except Exception as exc:
            self.note_escape(exc)
            if self.harness_exc is None:
                self.disc("spawn-raised", f"{here}: starting a {how} task raised {short_exc(exc)}")
            return
        self.observe(stack, here + f"(after starting {how} tasks)", in_component)
        for ev in done:
            await ev.wait()
        self.observe(stack, here + f"(after {how} tasks finished)", in_component)

    def note_escape(self, exc: BaseException) -> None:
        for leaf in flatten_exc(exc):
            if isinstance(leaf, HarnessError) or (isinstance(leaf, Exception) and innermost_is_harness(leaf)
                                                  and not isinstance(leaf, VErr)):
                if self.harness_exc is None:
                    self.harness_exc = leaf

    async def main(self) -> None:
        from asphalt.core import Context

        try:
            if self.case["root"]:
                async with Context() as root:
                    stack = [root]
                    await self.run(stack, self.case["script"], "main")
                self.observe([], "main(after the root context)")
            else:
                self.observe([], "main(no context)")
                await self.run([], self.case["script"], "main")
                self.observe([], "main(end)")
        except BaseException as exc:
            self.note_escape(exc)
            raise


_names: dict[int, str] = {}


def _nm(c: Any) -> str:
    if c is None:
        return "None"
    return f"{type(c).__name__}@{id(c) % 100000}"


def run_case(case: dict, prop: str) -> Outcome:
    if case.get("kind") == "deep":
        return run_deep(case)
    it = Interp(case)
    try:
        run_virtual(case["backend"], it.main, sched_seed=case.get("sched_seed", 0))
    except Deadlock as exc:
        if it.harness_exc is None and not it.stop:
            it.disc("deadlock", f"deadlock: {exc}; trace tail {it.trace[-3:]}")
    except HarnessError:
        raise
    except BaseException as exc:
        it.note_escape(exc)
        if it.harness_exc is not None or any(innermost_is_harness(l) and not isinstance(l, (VErr, VBase)) for l in flatten_exc(exc)):
            raise
        if not it.stop:
            it.disc("run-raised:" + type(flatten_exc(exc)[0]).__name__, f"run raised {short_exc(exc)}; trace tail {it.trace[-3:]}")
    if it.harness_exc is not None:
        raise HarnessError(f"harness exception inside the run: {short_exc(it.harness_exc)}") from it.harness_exc
    out = it.out
    out.labels = sorted(it.labels | {case["backend"], f"tasks={min(it.n_tasks, 6)}", f"nest={it.max_nest}", "root" if case["root"] else "no-root"})
    out.nontrivial = it.concurrent_blocks or it.nonreturn_deep
    out.trace = it.trace[:60]
    return out


def shrink_candidates(case: dict):
    if case.get("kind") == "deep":
        for key, val in (("cp", False), ("explicit_every", 0), ("backend", "asyncio"), ("sched_seed", 0)):
            if case.get(key) != val:
                yield dict(case, **{key: val})
        return

    def variants(items: list):
        for i in range(len(items)):
            yield items[:i] + items[i + 1:]
        for i, it in enumerate(items):
            if it["op"] == "block":
                yield items[:i] + it["body"] + items[i + 1:]
                for v in variants(it["body"]):
                    yield items[:i] + [dict(it, body=v)] + items[i + 1:]
                if it["exit"] != "return":
                    yield items[:i] + [dict(it, exit="return")] + items[i + 1:]
            elif it["op"] == "par":
                for si, sc in enumerate(it["scripts"]):
                    if len(it["scripts"]) > 1:
                        yield items[:i] + [dict(it, scripts=it["scripts"][:si] + it["scripts"][si + 1:])] + items[i + 1:]
                    for v in variants(sc):
                        yield items[:i] + [dict(it, scripts=it["scripts"][:si] + [v] + it["scripts"][si + 1:])] + items[i + 1:]
                if it["how"] != "tg":
                    yield items[:i] + [dict(it, how="tg")] + items[i + 1:]
            elif it["op"] == "component":
                for ph in ("prepare", "start"):
                    if it.get(ph):
                        for v in variants(it[ph]):
                            yield items[:i] + [dict(it, **{ph: v})] + items[i + 1:]
                if it.get("child"):
                    yield items[:i] + [dict(it, child=None)] + items[i + 1:]

    for v in variants(case["script"]):
        c = copy.deepcopy(case)
        c["script"] = copy.deepcopy(v)
        yield c
    for key, val in (("backend", "asyncio"), ("sched_seed", 0)):
        if case.get(key) != val:
            c = copy.deepcopy(case)
            c[key] = val
            yield c
