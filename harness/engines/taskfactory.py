"""C09 - task factories: inherited context, exact handle set, teardown waits, errors kept.

case = {backend, sched_seed, kind: root|nested, handler: absent|truthy|falsy|none, pre_res: k, via: module|method,
        ops: [...], fatal: {...}|None, after_exit: [soon|start...]}
op = {"op": "spawn", "tid", "via": start|soon, "from": F|child|task, "parent": tid, "outcome": ret|raise|event|forever, "d", "status": bool, "name"}
   | {"op": "cancel", "tid"} | {"op": "wait", "tid"} | {"op": "observe"} | {"op": "sleep", "d"} | {"op": "add_res"} | {"op": "set", "tid"}

The main task only observes at times whose fractional part (k/64) differs from that of every
task end, so all_task_handles() is compared with the model at quiescent instants only.
"""

from __future__ import annotations

import copy
from typing import Any

import anyio
from hypothesis import strategies as st

from harness.core import HarnessError, Outcome, flatten_exc, innermost_is_harness, short_exc
from harness.gen import BACKEND, SEED, D
from harness.vloop import Deadlock, checkpoints, now, run_virtual

TICK = 1 / 64


class Res:
    def __init__(self, tag: str) -> None:
        self.tag = tag


class TaskErr(Exception):
    pass


class BodyErr(Exception):
    pass


class TdBase(BaseException):
    pass


@st.composite
def cases(draw: Any, tier: str) -> dict:
    d = D(draw)
    handler = d.weighted([("truthy", 45), ("absent", 20), ("falsy", 20), ("none", 15)])
    nops = d.int(2, 14 if tier == "quick" else 24)
    ops: list[dict] = []
    tasks: dict[int, dict] = {}  # tid -> {"state": running|ended, "outcome"}
    ntid = 0
    nobs = 0
    for _ in range(nops):
        running = [t for t, v in tasks.items() if v["state"] == "running"]
        w = {"spawn": 34 if ntid < 8 else 0, "cancel": 10 if running else 0, "wait": 8 if tasks else 0, "observe": 22 if nobs < 50 else 0,
             "sleep": 14, "add_res": 5, "set": 8 if any(tasks[t]["outcome"] == "event" for t in running) else 0}
        kind = d.weighted(list(w.items()))
        if kind == "spawn":
            outcome = d.weighted([("ret", 35), ("instant", 12), ("raise", 20 if handler == "truthy" else 0), ("event", 17), ("forever", 16)])
            frm = d.weighted([("F", 50), ("child", 25), ("task", 25)])
            op: dict[str, Any] = {"op": "spawn", "tid": ntid, "via": d.pick(["start", "soon"]), "from": frm, "outcome": outcome,
                                  "d": d.int(1, 4), "status": False, "name": d.pick([None, "named"]),
                                  "cleanup": d.weighted([(0, 50), (1, 30), (2, 20)]), "shape": d.weighted([("function", 80), ("object", 20)])}
            if frm == "task":
                op["via"] = "soon"
            if handler == "truthy" and outcome in ("event", "forever", "ret") and d.pct(25):
                # cancelled through its handle, the task fails while it unwinds: an Exception like any other
                op["cleanup_raise"] = True
            if op["via"] == "start" and d.pct(40):
                op["status"] = True
            tasks[ntid] = {"state": "running", "outcome": outcome}
            ntid += 1
            ops.append(op)
        elif kind == "cancel":
            t = d.pick(running)
            ops.append({"op": "cancel", "tid": t})
            tasks[t]["state"] = "ended"
        elif kind == "wait":
            t = d.pick(sorted(tasks))
            if tasks[t]["state"] == "running" and tasks[t]["outcome"] in ("event", "forever"):
                continue  # would block forever
            ops.append({"op": "wait", "tid": t})
            tasks[t]["state"] = "ended"
        elif kind == "observe":
            ops.append({"op": "observe"})
            nobs += 1
        elif kind == "sleep":
            dd = d.int(1, 4)
            ops.append({"op": "sleep", "d": dd})
        elif kind == "add_res":
            ops.append({"op": "add_res"})
        elif kind == "set":
            t = d.pick([t for t in running if tasks[t]["outcome"] == "event"])
            ops.append({"op": "set", "tid": t})
            tasks[t]["state"] = "ended"
    # tasks that never end by themselves are ended before the factory's context is left
    for t, v in tasks.items():
        if v["state"] == "running" and v["outcome"] in ("event", "forever"):
            ops.append({"op": "set" if v["outcome"] == "event" else "cancel", "tid": t})
    if d.pct(5):
        # many tasks still running when the factory's context is left, some of them for a long time
        for _ in range(d.pick([11, 12, 16, 25])):
            ops.append({"op": "spawn", "tid": ntid, "via": "soon", "from": "F", "outcome": "ret", "d": d.pick([2, 3, 40, 100]), "status": False,
                        "name": None, "cleanup": 0, "shape": "function"})
            tasks[ntid] = {"state": "running", "outcome": "ret"}
            ntid += 1
    ops.append({"op": "observe"})
    case: dict[str, Any] = {"backend": draw(BACKEND), "sched_seed": draw(SEED), "kind": d.pick(["root", "nested"]), "handler": handler,
                            "pre_res": d.int(0, 2), "via": d.pick(["module", "method"]), "ops": ops, "fatal": None,
                            "after_exit": [d.pick(["soon", "start"]) for _ in range(d.weighted([(0, 50), (1, 35), (2, 15)]))],
                            "start_from_child": d.pct(25)}
    if handler != "truthy" and d.pct(25):
        case["fatal"] = {"d": d.int(1, 3), "via": d.pick(["start", "soon"]), "body_error": d.pct(40)}
        if d.pct(60):
            # siblings that are still running when the fatal task fails: they are ended from outside, not through their handles
            for _ in range(d.int(1, 3)):
                ops.insert(len(ops) - 1, {"op": "spawn", "tid": ntid, "via": d.pick(["start", "soon"]), "from": "F", "outcome": d.pick(["ret", "forever"]),
                                          "d": d.pick([5, 50]), "status": False, "name": None, "cleanup": d.pick([0, 1]), "shape": "function",
                                          "bystander": True})
                ntid += 1
    elif d.pct(20):
        case["td_raises_base"] = True  # a teardown callback registered after the factory raises a BaseException
    return case


def strategy(prop: str, tier: str) -> st.SearchStrategy:
    return cases(tier)


class Interp:
    def __init__(self, case: dict) -> None:
        self.case = case
        self.out = Outcome()
        self.trace: list[Any] = []
        self.harness_exc: BaseException | None = None
        self.handles: dict[int, Any] = {}
        self.started: dict[int, float] = {}
        self.ended: dict[int, float] = {}
        self.cancel_seen: dict[int, bool] = {}
        self.events: dict[int, anyio.Event] = {}
        self.ctx_of: dict[int, Any] = {}
        self.handler_calls: list[BaseException] = []
        self.raised: dict[int, BaseException] = {}
        self.spawn_requests: dict[int, list[dict]] = {}
        self.fatal_exc: BaseException | None = None
        self.body_exc: BaseException | None = None
        self.stop = False
        self.labels: set[str] = set()
        self.max_alive_at_op = 0
        self.foreign_spawn = False
        self.cancel_requested: set[int] = set()

    def disc(self, bucket: str, msg: str) -> None:
        self.out.add("factory", "factory:" + bucket, msg)

    def note_escape(self, exc: BaseException) -> None:
        for leaf in flatten_exc(exc):
            if isinstance(leaf, HarnessError) or (isinstance(leaf, Exception) and innermost_is_harness(leaf)
                                                  and not isinstance(leaf, (TaskErr, BodyErr))):
                if self.harness_exc is None:
                    self.harness_exc = leaf

    def alive(self) -> set[int]:
        return {t for t in self.handles if t not in self.ended}

    def check_handles(self, where: str) -> None:
        if self.stop:
            return
        try:
            got = self.factory.all_task_handles()
        except Exception as exc:
            self.disc("all_task_handles-raises", f"{where}: all_task_handles() raised {short_exc(exc)}")
            self.stop = True
            return
        want = {self.handles[t] for t in self.alive()}
        same = got == want
        if same and isinstance(got, set):
            # what the caller does with the returned collection is the caller's business
            got.clear()
            try:
                again = self.factory.all_task_handles()
            except Exception as exc:
                self.disc("all_task_handles-raises", f"{where}: all_task_handles() raised {short_exc(exc)}")
                self.stop = True
                return
            if again != want:
                self.disc("handles:result-aliases-registry", f"{where} (t={now()}): after the caller emptied the set returned by "
                          f"all_task_handles(), the next call lists {len(again)} task(s) although {len(want)} spawned task(s) have not finished")
                self.stop = True
                return
        if not same:
            inv = {id(h): t for t, h in self.handles.items()}
            g = sorted(inv.get(id(h), "phantom") for h in got) if all(id(h) in inv for h in got) else [inv.get(id(h), "phantom") for h in got]
            w = sorted(inv[id(h)] for h in want)
            b = "phantom-handle" if any(id(h) not in inv for h in got) else ("finished-task-listed" if set(g) - set(w) else "live-task-missing")
            self.disc("handles:" + b, f"{where} (t={now()}): all_task_handles() lists tasks {g}, tasks spawned and not finished: {w}")
            self.stop = True

    def make_fn(self, op: dict) -> Any:
        from asphalt.core import current_context, get_resources

        interp = self
        tid = op["tid"]
        cancelled_cls = anyio.get_cancelled_exc_class()

        async def body() -> None:
            interp.started[tid] = now()
            try:
                cur = current_context()
                interp.ctx_of[tid] = cur
                names = set(get_resources(Res))
                interp.trace.append(["task-start", tid, now(), sorted(names)])
                want = {f"pre{k}" for k in range(interp.case["pre_res"])}
                if names != want:
                    extra = names - want
                    b = "sees-spawner-resources" if any(n.startswith("child") for n in extra) else (
                        "sees-late-resources" if any(n.startswith("late") for n in extra) else "resources-wrong")
                    interp.disc("task-context:" + b, f"task {tid} (spawned from {op['from']}) sees resources {sorted(names)}, the factory's context "
                                f"had {sorted(want)} when the factory was started")
                chain = []
                p = cur
                while p is not None and len(chain) < 6:
                    chain.append(p)
                    p = p.parent
                if cur is interp.F or not any(x is interp.F for x in chain) or any(cur is c for t, c in interp.ctx_of.items() if t != tid):
                    interp.disc("task-context:not-fresh-child-of-factory", f"task {tid} runs in a context whose chain is {[type(x).__name__ for x in chain]}; "
                                f"expected a fresh context inheriting from the factory's context")
                if interp.child_ctx is not None and any(x is interp.child_ctx for x in chain):
                    interp.disc("task-context:inherits-from-spawner", f"task {tid} inherits from the context of whoever spawned it")
                if op["outcome"] == "spawner":
                    interp.do_spawn_soon(op["child"])
                elif op["outcome"] == "instant":
                    pass  # returns without ever yielding to the event loop
                elif op["outcome"] == "ret":
                    await anyio.sleep(op["d"])
                elif op["outcome"] == "raise":
                    await anyio.sleep(op["d"])
                    interp.raised[tid] = TaskErr(f"task {tid}")
                    raise interp.raised[tid]
                elif op["outcome"] == "event":
                    await interp.events[tid].wait()
                else:
                    await anyio.sleep_forever()
            except cancelled_cls:
                interp.cancel_seen[tid] = True
                if op.get("cleanup"):
                    with anyio.CancelScope(shield=True):
                        await anyio.sleep(op["cleanup"])  # the task needs time to clean up
                if op.get("cleanup_raise") and tid in interp.cancel_requested:
                    interp.raised[tid] = TaskErr(f"task {tid} failed while unwinding after handle.cancel()")
                    interp.labels.add("raise-after-cancel")
                    raise interp.raised[tid] from None
                raise
            finally:
                interp.ended[tid] = now()
                interp.trace.append(["task-end", tid, now()])

        if op.get("status"):
            async def fn(*, task_status: Any) -> None:
                task_status.started(("value", tid))
                await body()
            return fn

        if op.get("shape") == "object":
            class _Job:  # a callable object is a legitimate task function too
                async def __call__(self) -> None:
                    await body()
            return _Job()

        async def fn2() -> None:
            await body()
        return fn2

    def do_spawn_soon(self, op: dict) -> None:
        tid = op["tid"]
        self.events[tid] = anyio.Event()
        try:
            h = self.factory.start_task_soon(self.make_fn(op), op.get("name"))
        except Exception as exc:
            self.disc("spawn-raised", f"start_task_soon raised {short_exc(exc)}")
            self.stop = True
            return
        self.handles[tid] = h
        self.trace.append(["spawned", tid, "soon", op["from"], now()])

    async def run_ops(self) -> None:
        from asphalt.core import Context, add_resource

        case = self.case
        n_late = 0
        for op in case["ops"]:
            if self.stop:
                return
            kind = op["op"]
            self.max_alive_at_op = max(self.max_alive_at_op, len(self.alive()) if kind in ("cancel",) else 0)
            if kind == "spawn":
                tid = op["tid"]
                if op["from"] == "task":
                    # a short-lived factory task does the spawning from inside its own context
                    self.foreign_spawn = True
                    sp = {"op": "spawn", "tid": 1000 + tid, "via": "soon", "from": "F", "outcome": "spawner", "d": 0, "status": False,
                          "name": None, "child": dict(op, via="soon")}
                    self.do_spawn_soon(sp)
                    await checkpoints(4)
                    self.trace.append(["spawned-from-task", tid, now()])
                    continue
                self.events[tid] = anyio.Event()

                async def spawn_here() -> None:
                    try:
                        if op["via"] == "soon":
                            h = self.factory.start_task_soon(self.make_fn(op), op.get("name"))
                        else:
                            h = await self.factory.start_task(self.make_fn(op), op.get("name"))
                            if op.get("status") and getattr(h, "start_value", None) != ("value", tid):
                                self.disc("start-value", f"start_task handle.start_value is {getattr(h, 'start_value', None)!r} for task {tid}")
                    except Exception as exc:
                        self.note_escape(exc)
                        if self.harness_exc is None:
                            self.disc("spawn-raised", f"start_task{'_soon' if op['via'] == 'soon' else ''} raised {short_exc(exc)}")
                        self.stop = True
                        return
                    self.handles[tid] = h
                    if op.get("name") and h.name != op["name"]:
                        self.disc("handle-name", f"handle.name is {h.name!r}, expected {op['name']!r}")

                if op["from"] == "child":
                    self.foreign_spawn = True
                    async with Context() as child:
                        self.child_ctx = child
                        add_resource(Res("child"), f"child{tid}")
                        await spawn_here()
                        await checkpoints(2)
                else:
                    await spawn_here()
                self.trace.append(["spawned", tid, op["via"], op["from"], now()])
            elif kind == "cancel":
                tid = op["tid"]
                h = self.handles.get(tid)
                if h is None:
                    continue
                others_before = {t: self.cancel_seen.get(t, False) for t in self.alive() if t != tid}
                self.max_alive_at_op = max(self.max_alive_at_op, len(self.alive()))
                self.cancel_requested.add(tid)
                h.cancel()
                await checkpoints(4)
                if tid in self.started and tid not in self.ended and not self.cancel_seen.get(tid):
                    self.disc("cancel-ineffective", f"task {tid} did not observe a cancellation after handle.cancel()")
                for t, seen in others_before.items():
                    if self.cancel_seen.get(t, False) and not seen:
                        self.disc("cancel-hit-other-task", f"cancelling task {tid} also cancelled task {t}")
                self.trace.append(["cancel", tid, now()])
            elif kind == "wait":
                tid = op["tid"]
                h = self.handles.get(tid)
                if h is None:
                    continue
                t0 = now()
                await h.wait_finished()
                t1 = now()
                end = self.ended.get(tid)
                if end is None:
                    self.disc("wait_finished-early", f"wait_finished() of task {tid} returned at t={t1} but the task has not ended")
                elif t1 != max(t0, end):
                    self.disc("wait_finished-time", f"wait_finished() of task {tid} called at t={t0} returned at t={t1}; the task ended at t={end}")
                self.trace.append(["wait", tid, t0, t1])
            elif kind == "observe":
                await anyio.sleep(TICK)
                self.check_handles("observe")
                self.trace.append(["observe", now(), sorted(self.alive())])
            elif kind == "sleep":
                await anyio.sleep(op["d"])
            elif kind == "add_res":
                n_late += 1
                self.F.add_resource(Res("late"), f"late{n_late}")
            elif kind == "set":
                if op["tid"] in self.events:
                    self.events[op["tid"]].set()
                    await checkpoints(4)
            else:
                raise HarnessError(kind)

    async def main(self) -> None:
        from asphalt.core import Context, start_background_task_factory

        case = self.case
        self.child_ctx = None
        interp = self
        hk = case["handler"]

        def handler(exc: Exception) -> Any:
            interp.handler_calls.append(exc)
            return {"truthy": True, "falsy": False, "none": None}[hk]

        handler_obj: Any = handler
        if len(case["ops"]) % 2:
            class _Handler:  # a callable object is as good a handler as a function
                def __call__(self, exc: Exception) -> Any:
                    return handler(exc)

                if len(case["ops"]) % 4 == 3:
                    def __len__(self) -> int:  # ... even one whose truth value is False (an error collector that is still empty)
                        return 0
            handler_obj = _Handler()
        kwargs = {} if hk == "absent" else {"exception_handler": handler_obj}
        cancelled_cls = anyio.get_cancelled_exc_class()
        caught: BaseException | None = None

        async def in_F(F: Any) -> None:
            self.F = F
            for k in range(case["pre_res"]):
                F.add_resource(Res("pre"), f"pre{k}")
            if case["via"] == "module":
                self.factory = await start_background_task_factory(**kwargs)
            elif case.get("start_from_child"):
                # the method is called on F while a nested context (with other resources) is current
                async with Context() as inner:
                    self.child_ctx = inner
                    inner.add_resource(Res("child"), "child_start")
                    self.factory = await F.start_background_task_factory(**kwargs)
                self.foreign_spawn = True
                self.labels.add("factory-started-from-other-context")
            else:
                self.factory = await F.start_background_task_factory(**kwargs)
            self.check_handles("right after start")
            await self.run_ops()
            if case["fatal"] and not self.stop:
                f = case["fatal"]

                async def boom() -> None:
                    await anyio.sleep(f["d"])
                    interp.fatal_exc = TaskErr("fatal")
                    raise interp.fatal_exc

                if f["via"] == "soon":
                    self.factory.start_task_soon(boom)
                else:
                    await self.factory.start_task(boom)
                if f.get("body_error"):
                    # the body fails on its own at the very moment the task does: both must surface
                    await anyio.sleep(f["d"])
                    self.body_exc = BodyErr("body failed")
                    raise self.body_exc
                try:
                    await anyio.sleep(100)
                except cancelled_cls:
                    self.trace.append(["body-cancelled", now()])
                    raise
                self.disc("fatal-not-propagated", "a task raised, the handler did not claim the exception, but the application kept running")
            if case.get("td_raises_base") and not self.stop:
                def bad_td() -> None:
                    raise TdBase("teardown callback")

                F.add_teardown_callback(bad_td)
            self.t_exit_call = now()
            self.running_at_exit = {t for t in self.alive() if t in self.handles}

        try:
            async with Context() as root:
                try:
                    if case["kind"] == "nested":
                        async with Context() as F:
                            await in_F(F)
                        self.t_left = now()
                    else:
                        await in_F(root)
                except BaseException as exc:
                    self.note_escape(exc)
                    raise
            if case["kind"] == "root":
                self.t_left = now()
        except BaseException as exc:
            if isinstance(exc, Deadlock):
                raise
            caught = exc
            if not hasattr(self, "t_left"):
                self.t_left = now()  # the block was left by an exception
        self.caught = caught
        await self.post_wait_check()
        # spawning after the factory's context is gone: the call fails and leaves no handle behind
        if not case["fatal"]:
            for how in case["after_exit"]:
                async def late() -> None:
                    pass
                try:
                    if how == "soon":
                        self.factory.start_task_soon(late)
                    else:
                        await self.factory.start_task(late)
                    raised = False
                except Exception:
                    raised = True
                await checkpoints(3)
                try:
                    left = self.factory.all_task_handles()
                except Exception:
                    left = set()
                if left:
                    self.disc("handles:phantom-handle", f"after the factory's context was left, start_task{'_soon' if how == 'soon' else ''} "
                              f"{'raised' if raised else 'returned'} and all_task_handles() lists {len(left)} task(s) that are not running")
                    break

    async def post_wait_check(self) -> None:
        """Every task whose body has ended - by returning, raising, handle.cancel() or a cancellation from outside (the
        application going down) - has a handle whose wait_finished() returns."""
        if self.stop:
            return
        done: set[int] = set()
        todo = {tid: h for tid, h in self.handles.items() if tid in self.ended}

        async def waiter(tid: int, h: Any) -> None:
            await h.wait_finished()
            done.add(tid)

        async with anyio.create_task_group() as tg:
            for tid, h in todo.items():
                tg.start_soon(waiter, tid, h)
            await checkpoints(8)
            tg.cancel_scope.cancel()
        missing = sorted(set(todo) - done)
        if missing:
            how = ["cancelled from outside" if self.cancel_seen.get(t) and t not in self.cancel_requested else
                   ("cancelled through its handle" if t in self.cancel_requested else "ended by itself") for t in missing]
            self.disc("wait_finished-never-returns", f"after the factory's context was left, wait_finished() of task(s) {missing} ({how}) "
                      f"still blocks although the task bodies ended at {[self.ended[t] for t in missing]}")
        if any(self.cancel_seen.get(t) and t not in self.cancel_requested for t in todo):
            self.labels.add("task-cancelled-from-outside")

    def judge(self) -> Outcome:
        case = self.case
        out = self.out
        if case["fatal"]:
            fe = self.fatal_exc
            if fe is not None and not self.stop:
                if not any(fe is l for l in flatten_exc(self.caught)):
                    self.disc("fatal-lost", f"task raised {fe!r} (handler: {case['handler']}); the owning root context raised {self.caught!r}")
                try:
                    left = self.factory.all_task_handles()
                except Exception:
                    left = set()
                if left:
                    self.disc("handles:finished-task-listed", f"after the application went down, all_task_handles() still lists {len(left)} task(s)")
                if case["handler"] != "absent":
                    n = sum(1 for e in self.handler_calls if e is fe)
                    if n != 1:
                        self.disc("handler-calls", f"the exception handler was called {n} times with the escaping exception")
        else:
            if case.get("td_raises_base") and not self.stop:
                # the raising callback must not stop the teardown from waiting for the tasks
                leaves = flatten_exc(self.caught)
                if not any(isinstance(l, TdBase) for l in leaves):
                    self.disc("teardown-exception-lost", f"a teardown callback raised TdBase; the root context raised {self.caught!r}")
                self.caught = None if all(isinstance(l, TdBase) for l in leaves) else self.caught
            if self.caught is not None and not self.stop:
                self.disc("unexpected-exception", f"the root context raised {self.caught!r} ({[repr(x) for x in flatten_exc(self.caught)]})")
            elif not self.stop:
                # teardown waited for - did not cancel - the running tasks
                ends = [self.ended.get(t) for t in self.running_at_exit]
                if any(e is None for e in ends):
                    self.disc("task-outlives-context", "a task had not ended when the factory's context was left")
                else:
                    want = max([self.t_exit_call] + [e for e in ends if e is not None])
                    if self.t_left != want:
                        self.disc("teardown-time", f"factory's context exit began at t={self.t_exit_call}, running tasks ended at {sorted(ends)}, "
                                  f"the block was left at t={self.t_left}")
                for t in self.running_at_exit:
                    if self.cancel_seen.get(t) and t not in self.cancel_requested:
                        self.disc("teardown-cancelled-task", f"task {t} was cancelled by the teardown of the factory's context")
                # handler: once per escaping exception
                for t, e in self.raised.items():
                    n = sum(1 for x in self.handler_calls if x is e)
                    if n != 1:
                        self.disc("handler-calls", f"exception of task {t} was passed to the handler {n} times")
        n_tasks = len(self.handles)
        labs = {case["backend"], "kind=" + case["kind"], "handler=" + case["handler"], f"tasks={min(n_tasks, 6)}"}
        if case["fatal"]:
            labs.add("fatal")
        if self.foreign_spawn:
            labs.add("spawn-from-other-context")
        if getattr(self, "running_at_exit", None):
            labs.add("tasks-running-at-exit")
        out.labels = sorted(labs | self.labels)
        out.nontrivial = self.max_alive_at_op >= 2 or len(getattr(self, "running_at_exit", ())) >= 2 or self.foreign_spawn
        out.trace = self.trace[:80]
        return out


def validate(case: dict) -> None:
    """Tasks that never end by themselves must be ended by an operation of the history, waits
    must not target such a task while it runs (generator invariant; protects the minimiser)."""
    state: dict[int, str] = {}
    outcome: dict[int, str] = {}
    for o in case["ops"]:
        if o["op"] == "spawn":
            if o["tid"] in state:
                raise HarnessError("task id used twice")
            state[o["tid"]] = "running"
            outcome[o["tid"]] = o["outcome"] if not (o.get("bystander") and case.get("fatal")) else "ret"  # ended by the fatal failure
        elif o["op"] in ("cancel", "set", "wait"):
            if o["tid"] not in state:
                raise HarnessError("operation on a task that was not spawned")
            if o["op"] == "set" and outcome[o["tid"]] != "event":
                raise HarnessError("set on a task that does not wait for an event")
            if o["op"] == "wait" and state[o["tid"]] == "running" and outcome[o["tid"]] in ("event", "forever"):
                raise HarnessError("wait_finished on a task that never ends")
            state[o["tid"]] = "ended"
    for t, st_ in state.items():
        if st_ == "running" and outcome[t] in ("event", "forever"):
            raise HarnessError("a task that never ends by itself is left running")


def run_case(case: dict, prop: str) -> Outcome:
    validate(case)
    it = Interp(case)
    try:
        run_virtual(case["backend"], it.main, sched_seed=case.get("sched_seed", 0))
    except Deadlock as exc:
        it.disc("deadlock", f"deadlock: {exc}; trace tail {it.trace[-4:]}")
        it.out.trace = it.trace[:80]
        return it.out
    except HarnessError:
        raise
    except BaseException as exc:
        it.note_escape(exc)
        if it.harness_exc is not None or any(innermost_is_harness(l) and not isinstance(l, (TaskErr, BodyErr, TdBase)) for l in flatten_exc(exc)):
            raise
        it.disc("run-raised:" + type(exc).__name__, f"run raised {short_exc(exc)}")
        return it.out
    if it.harness_exc is not None:
        raise HarnessError(f"harness exception inside the run: {short_exc(it.harness_exc)}") from it.harness_exc
    return it.judge()


def shrink_candidates(case: dict):
    for i in range(len(case["ops"])):
        c = copy.deepcopy(case)
        o = c["ops"][i]
        if o["op"] == "spawn":
            tid = o["tid"]
            c["ops"] = [x for x in c["ops"] if x.get("tid") != tid]
        else:
            del c["ops"][i]
        yield c
    for key, val in (("kind", "root"), ("backend", "asyncio"), ("sched_seed", 0), ("pre_res", 0), ("fatal", None), ("after_exit", []),
                     ("via", "method")):
        if case.get(key) != val:
            c = copy.deepcopy(case)
            c[key] = val
            yield c
    for i, o in enumerate(case["ops"]):
        if o["op"] == "spawn":
            for field, val in (("from", "F"), ("status", False), ("name", None), ("d", 1), ("via", "soon")):
                if o.get(field) != val:
                    c = copy.deepcopy(case)
                    c["ops"][i][field] = val
                    yield c
