"""E3 - components engine: C05 (startup order), C06 (waiting for resources), C07 (failures, timeout).

case = {backend, sched_seed, mode: "order"|"fault"|"timeout"|"stall", nodes: [node...], outside: [...],
        fault: {...}|None, timeout_delta: int|None, stall_timeout: int|None}
node = {id, parent: id|None, alias, declare: add|config|both, prepare: [step]|None, start: [step]|None}
step = {op: sleep|cp|publish|wait|lookup|td|svc|burst|fail|stall, ...}

All timing is virtual; the oracle works post hoc on the trace (serial, kind, path, virtual
time) using observed times only - no timing model of asphalt is needed.
"""

from __future__ import annotations

import copy
from typing import Any

import anyio
from hypothesis import strategies as st

from harness.core import HarnessError, Outcome, flatten_exc, innermost_is_harness, short_exc
from harness.gen import BACKEND, SEED, D
from harness.vloop import Deadlock, checkpoints, now, run_virtual

PROP_CLASSES = {"C05": {"order", "ownership"}, "C06": {"wait"}, "C07": {"fault", "ownership"}}
NAMES = ["default", "x", "y", "z"]


class _Res:
    # every third published object is one whose truth value is False (an empty registry, a
    # closed handle ...): a resource is what was published, whatever bool() says about it
    def __bool__(self) -> bool:
        tag = getattr(self, "tag", None)
        return not (isinstance(tag, tuple) and isinstance(tag[-1], int) and tag[-1] % 3 == 0)


class R0(_Res):
    pass


class R1(_Res):
    pass


class R2(_Res):
    pass


class R3(_Res):
    pass


class R4(_Res):
    pass


class RBurst:
    pass


RTYPES: list[type] = [R0, R1, R2, R3, R4]


class Inj0(Exception):
    pass


class Inj1(LookupError):
    pass


class Inj2(RuntimeError):
    pass


class Inj3(TimeoutError):  # (a component's own I/O timing out is a failure of that component, not the startup timeout)
    pass


class Inj4(OSError):
    pass


INJ = [Inj0, Inj1, Inj2, Inj3, Inj4]


# =====================================================================================
# generation
# =====================================================================================


def _paths(nodes: list[dict]) -> dict[int, str]:
    out: dict[int, str] = {}
    for n in nodes:
        if n["parent"] is None:
            out[n["id"]] = ""
        else:
            pp = out[n["parent"]]
            out[n["id"]] = f"{pp}.{n['alias']}" if pp else n["alias"]
    return out


def _ancestors(nodes: list[dict], i: int) -> list[int]:
    out = []
    p = nodes[i]["parent"]
    while p is not None:
        out.append(p)
        p = nodes[p]["parent"]
    return out


def _depth(nodes: list[dict], i: int) -> int:
    return len(_ancestors(nodes, i))


def _default_name(node: dict) -> str:
    return node["alias"].split("/", 1)[1] if "/" in node["alias"] else "default"


@st.composite
def cases(draw: Any, prop: str, tier: str) -> dict:
    d = D(draw)
    quick = tier == "quick"
    max_n = 7 if quick else 15
    max_depth = 3 if quick else 4
    max_fan = 3 if quick else 4
    n = d.int(1, max_n)
    shape = None
    if d.pct(4 if prop == "C07" else 2):
        # far beyond the usual sizes: one component with dozens of children, or a chain dozens of levels deep
        shape = d.pick(["wide", "deep"])
        n = d.pick([34, 36, 40])
    nodes: list[dict] = []
    for i in range(n):
        parent = None
        if i > 0 and shape:
            parent = 0 if shape == "wide" else i - 1
        elif i > 0:
            cand = [j for j in range(i) if _depth(nodes, j) < max_depth and sum(1 for x in nodes if x["parent"] == j) < max_fan]
            parent = d.pick(cand) if cand else 0
        alias = f"c{i}"
        if i > 0 and d.pct(22 if prop == "C06" else 12):
            alias = f"kind{i}/alt{i}"
        nodes.append({"id": i, "parent": parent, "alias": alias, "declare": d.weighted([("add", 55), ("config", 30), ("both", 15)]),
                      "has_prepare": d.pct(55), "has_start": d.pct(70),
                      # where prepare()/start() are defined: on the class itself, on a Component base class, on a plain mixin
                      "defined": d.weighted([("own", 70), ("base", 15), ("mixin", 15)])})
    # ---- phase nodes and a random linearisation consistent with the built-in order ----
    phases = [(x["id"], ph) for x in nodes for ph in ("prepare", "start") if x["has_" + ph]]

    def must_precede(a: tuple, b: tuple) -> bool:
        (i, pa), (j, pb) = a, b
        if i == j:
            return pa == "prepare" and pb == "start"
        if pa == "prepare" and i in _ancestors(nodes, j):
            return True  # a parent's prepare() precedes everything below it
        if pb == "start" and j in _ancestors(nodes, i):
            return True  # everything below precedes the ancestor's start()
        return False

    remaining = list(phases)
    lin: list[tuple] = []
    while remaining:
        ready = [p for p in remaining if not any(must_precede(q, p) for q in remaining if q != p)]
        pick = d.pick(ready)
        lin.append(pick)
        remaining.remove(pick)

    npool = NAMES + [_default_name(x) for x in nodes if "/" in x["alias"]]
    ntypes = 4 if quick else 5
    taken: set[tuple[int, str]] = set()  # (type, effective name) pairs already published
    available: list[dict] = []  # publications usable as wait targets by later phases
    scripts: dict[tuple, list[dict]] = {}
    burst_id = [0]
    max_steps = (4 if quick else 6) if not shape else 2
    wait_p = {"C05": 30, "C06": 45, "C07": 25}[prop] if not shape else 45
    for (i, ph) in lin:
        node = nodes[i]
        steps: list[dict] = []
        local_avail = list(available)
        for _ in range(d.int(0, max_steps)):
            kind = d.weighted([("sleep", 18), ("cp", 14), ("publish", 26), ("wait", wait_p if local_avail else 0),
                               ("lookup", 10), ("td", 8), ("svc", 5), ("burst", 6 if prop == "C06" else 1), ("subctx", 7),
                               ("many_ctx", 2 if prop == "C06" else 0)])
            if kind == "sleep":
                steps.append({"op": "sleep", "d": d.int(1, 3)})
            elif kind == "cp":
                steps.append({"op": "cp", "n": d.int(1, 3)})
            elif kind == "publish":
                how = d.weighted([("static", 55), ("factory", 25), ("multi", 20)])
                name = d.pick(npool)
                eff = _default_name(node) if (name == "default" and ph == "start") else name
                ts = [d.int(0, ntypes - 1)]
                if how == "multi":
                    t2 = d.int(0, ntypes - 1)
                    if t2 != ts[0]:
                        ts.append(t2)
                if any((t, eff) in taken for t in ts):
                    continue
                for t in ts:
                    taken.add((t, eff))
                # slow publishers make requests arrive before the publication
                r_ = d.int(0, 99)
                if r_ < 35:
                    steps.append({"op": "sleep", "d": d.int(1, 3)})
                elif r_ < 55:
                    steps.append({"op": "cp", "n": d.int(1, 3)})
                st_ = {"op": "publish", "how": "factory" if how == "factory" else "static", "types": ts, "name": name, "eff": eff}
                if how == "factory":
                    st_["async"] = d.bool()
                    if st_["async"] and prop == "C07" and d.pct(50):
                        st_["fdelay"] = d.int(1, 4)  # generating takes time (only where wait times are not asserted)
                steps.append(st_)
                for t in ts:
                    local_avail.append({"t": t, "name": eff})
            elif kind == "wait":
                tgt = d.pick(local_avail)
                w_ = {"op": "wait", "t": tgt["t"], "name": tgt["name"]}
                if prop == "C06" and d.pct(18):
                    w_["giveup"] = d.int(1, 3)  # the waiter gives up locally after k ticks (move_on_after)
                if tgt in available and d.pct(60):
                    # published by another phase: ask early, so that the request tends to come first
                    steps.insert(0 if d.pct(70) else d.int(0, len(steps)), w_)
                else:
                    steps.append(w_)
            elif kind == "lookup":
                # optional / synchronous lookups never wait, whatever the state
                t, name = d.int(0, ntypes - 1), d.pick(npool)
                steps.append({"op": "lookup", "t": t, "name": name, "api": d.pick(["optional", "nowait", "nowait_optional"])})
            elif kind == "td":
                steps.append({"op": "td"})
            elif kind == "subctx":
                steps.append({"op": "subctx", "n": d.int(0, 2)})  # a unit of work in its own sub-context
            elif kind == "many_ctx":
                # dozens of contexts alive at the same time, each publishing something private
                k = d.pick([20, 64, 70, 100])
                steps.append({"op": "many_ctx", "k": k, "base": burst_id[0]})
                burst_id[0] += k
            elif kind == "svc":
                sv = {"op": "svc"}
                if d.pct(40):
                    sv["started_after"] = d.int(1, 3)  # the service calls task_status.started() only after k ticks
                steps.append(sv)
            elif kind == "burst":
                # (bursts above 50 overflow a default-sized signal queue: finding F9, fixed)
                nb = d.weighted([(d.int(1, 8), 70), (d.int(40, 70 if quick else 130), 30)])
                steps.append({"op": "burst", "n": nb, "base": burst_id[0]})
                burst_id[0] += nb
        scripts[(i, ph)] = steps
        available = local_avail
    for x in nodes:
        x["prepare"] = scripts.get((x["id"], "prepare")) if x["has_prepare"] else None
        x["start"] = scripts.get((x["id"], "start")) if x["has_start"] else None
        del x["has_prepare"], x["has_start"]
    case: dict[str, Any] = {"backend": draw(BACKEND), "sched_seed": draw(SEED), "mode": "order", "nodes": nodes,
                            "lin": [[i, ph] for i, ph in lin]}
    if prop == "C06":
        # the same kind of request outside component startup, through a plain Context
        case["outside"] = [{"t": d.int(0, ntypes - 1), "name": d.pick(npool), "optional": d.bool()} for _ in range(d.int(0, 2))]
    if prop == "C07":
        mode = d.weighted([("fault", 60), ("timeout", 25), ("stall", 15)])
        case["mode"] = mode
        if mode == "fault":
            i = d.int(0, n - 1)
            opts = ["creating"] + (["preparing"] if nodes[i]["prepare"] is not None else []) + (["starting"] if nodes[i]["start"] is not None else [])
            phase = d.pick(opts)
            f: dict[str, Any] = {"node": i, "phase": phase, "exc": d.int(0, 4)}
            if phase != "creating":
                script = nodes[i]["prepare" if phase == "preparing" else "start"]
                pos = d.int(0, len(script))
                script.insert(pos, {"op": "fail", "exc": f["exc"], **({"nested": True} if d.pct(20) else {})})
            case["fault"] = f
            case["fault_timeout"] = d.weighted([(10**6, 60), (None, 40)])  # with and without the startup watchdog
        elif mode == "timeout":
            case["timeout_delta"] = d.pick([-3, -2, -1, 1, 2, 5])
            if d.pct(15):
                # a start-up (and therefore a timeout) of more than half a minute of virtual time
                k = next((x["id"] for x in nodes if x["start"] is not None), None)
                if k is not None:
                    nodes[k]["start"].append({"op": "sleep", "d": d.pick([31, 40, 100])})
        else:
            cand = [x["id"] for x in nodes if x["start"] is not None or x["prepare"] is not None]
            if cand:
                i = d.pick(cand)
                ph = "start" if nodes[i]["start"] is not None else "prepare"
            else:
                i, ph = 0, "start"
                nodes[0]["start"] = []
                case["lin"].append([0, "start"])  # the root's start() is last in every linearisation
            script = nodes[i][ph]
            script.insert(d.int(0, len(script)), {"op": "stall", "how": d.pick(["sleep", "never", "anext_default", "athrow"])})
            if shape == "wide":
                # ... and with it most of its many siblings
                for x in nodes[1:]:
                    if x["id"] != i and x["start"] is not None and d.pct(70):
                        x["start"].insert(0, {"op": "stall", "how": "sleep"})
            # ("default": the timeout argument is left out - the documented default of 20 seconds applies)
            case["stall_timeout"] = "default" if d.pct(15) else d.int(1, 12)
    return case


def strategy(prop: str, tier: str) -> st.SearchStrategy:
    return cases(prop, tier)


# =====================================================================================
# interpreter
# =====================================================================================


class Run:
    """One execution of the component tree (C07's timeout mode runs the case twice)."""

    def __init__(self, case: dict, timeout: Any) -> None:
        self.case = case
        self.timeout = timeout
        self.trace: list[dict] = []
        self.nodes = case["nodes"]
        self.paths = _paths(self.nodes)
        self.classes: dict[int, type] = {}
        self.instances: dict[int, Any] = {}
        self.objs: dict[int, Any] = {}
        self.td_registered: list[str] = []
        self.td_ran: list[str] = []
        self.svc_started: list[str] = []
        self.svc_running: set[str] = set()
        self.injected: BaseException | None = None
        self.result: Any = None
        self.error: BaseException | None = None
        self.error_time: float | None = None
        self.t0 = 0.0
        self.t_return: float | None = None
        self.trace_len_at_error: int | None = None
        self.trace_len_after_quiet: int | None = None
        self.views_after: dict = {}
        self.parent_views_after: dict = {}
        self.outside_results: list[dict] = []
        self.harness_exc: BaseException | None = None
        self.exit_error: BaseException | None = None
        self.nested_problem: str | None = None
        self.n_obj = 0

    def ev(self, kind: str, path: str, **extra: Any) -> dict:
        e = {"s": len(self.trace), "k": kind, "p": path, "t": now(), **extra}
        self.trace.append(e)
        return e

    def new_obj(self, cls: type, tag: Any) -> Any:
        o = cls()
        self.n_obj += 1
        o.tag = (tag, self.n_obj)  # type: ignore[attr-defined]
        self.objs[id(o)] = o
        return o

    # -- scripts ---------------------------------------------------------------------------
    async def run_script(self, node: dict, phase: str, steps: list[dict]) -> None:
        from asphalt.core import (
            add_resource,
            add_resource_factory,
            add_teardown_callback,
            get_resource,
            get_resource_nowait,
            start_service_task,
        )

        path = self.paths[node["id"]]
        run = self
        for si, st_ in enumerate(steps):
            op = st_["op"]
            if op == "sleep":
                await anyio.sleep(st_["d"])
            elif op == "cp":
                await checkpoints(st_["n"])
            elif op == "publish":
                types = [RTYPES[t] for t in st_["types"]]
                if st_["how"] == "static":
                    obj = self.new_obj(types[0], ("static", path, phase, si))
                    scratch = list(types)
                    add_resource(obj, st_["name"], scratch)
                    scratch.clear()
                    scratch.append(RBurst)
                    self.ev("publish", path, types=st_["types"], name=st_["eff"], how="static", obj=id(obj))
                else:
                    made: list[int] = []

                    if st_.get("async"):
                        async def fac(types: list = types, made: list = made, tag: Any = (path, phase, si), delay: int = st_.get("fdelay", 0)) -> Any:
                            if delay:
                                await anyio.sleep(delay)
                            o = run.new_obj(types[0], ("factory", tag))
                            made.append(id(o))
                            return o
                    else:
                        def fac(types: list = types, made: list = made, tag: Any = (path, phase, si)) -> Any:  # type: ignore[misc]
                            o = run.new_obj(types[0], ("factory", tag))
                            made.append(id(o))
                            return o

                    scratch = list(types)
                    add_resource_factory(fac, st_["name"], types=scratch)
                    # the publisher goes on using its list for something else: what was registered (and
                    # announced to components that are already waiting) must not change with it
                    scratch.clear()
                    scratch.append(RBurst)
                    self.ev("publish", path, types=st_["types"], name=st_["eff"], how="factory", made=made)
            elif op == "many_ctx":
                from contextlib import AsyncExitStack

                from asphalt.core import Context as _Ctx2

                async with AsyncExitStack() as stack:
                    for k in range(st_["k"]):
                        c = await stack.enter_async_context(_Ctx2())
                        c.add_resource(object(), f"many{st_['base'] + k}", types=[RBurst])
                    await checkpoints(1)
            elif op == "subctx":
                from asphalt.core import Context as _Ctx

                async with _Ctx():
                    await checkpoints(st_["n"])
            elif op == "burst":
                for k in range(st_["n"]):
                    add_resource(object(), f"bst{st_['base'] + k}", types=[RBurst])
                self.ev("burst", path, n=st_["n"])
            elif op == "wait" and st_.get("giveup"):
                b = self.ev("wait-begin", path, t_=st_["t"], name=st_["name"], giveup=st_["giveup"])
                obj = None
                with anyio.move_on_after(st_["giveup"]) as scope:
                    obj = await get_resource(RTYPES[st_["t"]], st_["name"])
                if scope.cancelled_caught:
                    self.ev("wait-gaveup", path, t_=st_["t"], name=st_["name"], begin=b["s"])
                else:
                    self.ev("wait-end", path, t_=st_["t"], name=st_["name"], begin=b["s"], obj=id(obj), giveup=st_["giveup"])
            elif op == "wait":
                b = self.ev("wait-begin", path, t_=st_["t"], name=st_["name"])
                try:
                    obj = await get_resource(RTYPES[st_["t"]], st_["name"])
                except BaseException as exc:
                    self.ev("wait-raised", path, t_=st_["t"], name=st_["name"], begin=b["s"], exc=type(exc).__name__,
                            cancelled=isinstance(exc, anyio.get_cancelled_exc_class()))
                    raise
                self.ev("wait-end", path, t_=st_["t"], name=st_["name"], begin=b["s"], obj=id(obj))
            elif op == "lookup":
                b = self.ev("lookup-begin", path, t_=st_["t"], name=st_["name"], api=st_["api"])
                res: Any = None
                err = None
                try:
                    if st_["api"] == "optional":
                        res = await get_resource(RTYPES[st_["t"]], st_["name"], optional=True)
                    elif st_["api"] == "nowait":
                        res = get_resource_nowait(RTYPES[st_["t"]], st_["name"])
                    else:
                        res = get_resource_nowait(RTYPES[st_["t"]], st_["name"], optional=True)
                except Exception as exc:
                    err = type(exc).__name__
                self.ev("lookup-end", path, t_=st_["t"], name=st_["name"], api=st_["api"], begin=b["s"],
                        obj=id(res) if res is not None else None, err=err)
            elif op == "td":
                mark = f"td:{path}:{phase}:{si}"
                add_teardown_callback(lambda m=mark: (run.td_ran.append(m), run.ev("teardown", m))[0])
                self.td_registered.append(mark)
            elif op == "svc":
                mark = f"svc:{path}:{phase}:{si}"

                async def service_body(mark: str = mark) -> None:
                    run.svc_running.add(mark)
                    try:
                        await anyio.sleep_forever()
                    finally:
                        run.svc_running.discard(mark)
                        run.td_ran.append(mark)
                        run.ev("teardown", mark)

                if st_.get("started_after"):
                    async def service(*, task_status: Any, mark: str = mark, delay: int = st_["started_after"]) -> None:
                        await anyio.sleep(delay)  # the component is blocked in start_service_task() meanwhile
                        task_status.started()
                        await service_body(mark)
                else:
                    async def service(mark: str = mark) -> None:  # type: ignore[misc]
                        await service_body(mark)

                await start_service_task(service, mark)
                self.td_registered.append(mark)
                self.svc_started.append(mark)
            elif op == "fail":
                if st_.get("nested"):
                    # the component fails because a component tree it starts itself (a plugin host) fails: the
                    # error it raises is a ComponentStartError - an Exception like any other for the outer start-up
                    from asphalt.core import Component, ComponentStartError, start_component

                    inner_exc = INJ[st_["exc"]](f"injected in a tree started by {path} {phase}")

                    class Plugin(Component):
                        async def start(self) -> None:
                            raise inner_exc

                    try:
                        await start_component(Plugin, timeout=None)
                    except Exception as e:
                        if not isinstance(e, ComponentStartError) or e.__cause__ is not inner_exc:
                            self.nested_problem = (f"the start_component() called inside {path!r} raised {short_exc(e)} (cause {e.__cause__!r}) for a "
                                                   f"component whose start() raised {inner_exc!r}; expected ComponentStartError caused by it")
                        self.injected = e
                        self.ev("fail", path, phase=phase)
                        raise
                    self.nested_problem = "the start_component() called inside a component returned although its component's start() raised"
                    self.injected = inner_exc
                    self.ev("fail", path, phase=phase)
                    raise inner_exc
                self.injected = INJ[st_["exc"]](f"injected in {path} {phase}")
                self.ev("fail", path, phase=phase)
                raise self.injected
            elif op == "stall":
                self.ev("stall", path)
                if st_["how"] == "sleep":
                    await anyio.sleep(10**5)
                elif st_["how"] == "anext_default":
                    async def agen() -> Any:
                        await anyio.sleep(10**5)
                        yield 1

                    await anext(agen(), None)  # the await chain contains an anext_awaitable
                elif st_["how"] == "athrow":
                    from contextlib import asynccontextmanager

                    @asynccontextmanager
                    async def hanging_cleanup() -> Any:
                        try:
                            yield
                        finally:
                            await anyio.sleep(10**5)

                    try:
                        async with hanging_cleanup():  # leaving by an exception: agen.athrow() hangs in its cleanup
                            raise KeyError("leave")
                    except KeyError:
                        pass
                else:
                    await get_resource(RBurst, "never_published")
            else:
                raise HarnessError(op)

    def make_class(self, node: dict) -> type:
        from asphalt.core import Component

        run = self
        path = self.paths[node["id"]]
        children = [x for x in self.nodes if x["parent"] == node["id"]]
        fault = self.case.get("fault")

        def __init__(self: Any, **kwargs: Any) -> None:
            run.ev("init", path)
            run.instances.setdefault(node["id"], []).append(self)
            for ch in children:
                if ch["declare"] in ("add", "both"):
                    self.add_component(ch["alias"], run.type_of(ch["id"]))
            if fault and fault["phase"] == "creating" and fault["node"] == node["id"]:
                run.injected = INJ[fault["exc"]](f"injected creating {path}")
                run.ev("fail", path, phase="creating")
                raise run.injected

        ns: dict[str, Any] = {"__init__": __init__}

        def phase_fn(phase: str, steps: list[dict]) -> Any:
            async def fn(self: Any) -> None:
                b = run.ev(f"{phase}-begin", path)
                try:
                    await run.run_script(node, phase, steps)
                except BaseException as exc:
                    run.ev(f"{phase}-aborted", path, cancelled=isinstance(exc, anyio.get_cancelled_exc_class()), exc=type(exc).__name__)
                    run.note_escape(exc)
                    raise
                run.ev(f"{phase}-end", path, begin=b["s"])
            return fn

        phases: dict[str, Any] = {}
        if node["prepare"] is not None:
            phases["prepare"] = phase_fn("prepare", node["prepare"])
        if node["start"] is not None:
            phases["start"] = phase_fn("start", node["start"])
        defined = node.get("defined", "own")
        if defined == "base" and phases:
            base = type(f"Base{node['id']}", (Component,), phases)
            return type(f"Comp{node['id']}", (base,), ns)
        if defined == "mixin" and phases:
            mixin = type(f"Mixin{node['id']}", (), phases)
            return type(f"Comp{node['id']}", (mixin, Component), ns)
        ns.update(phases)
        return type(f"Comp{node['id']}", (Component,), ns)

    def note_escape(self, exc: BaseException) -> None:
        for leaf in flatten_exc(exc):
            if isinstance(leaf, HarnessError) or (isinstance(leaf, Exception) and innermost_is_harness(leaf)
                                                  and not isinstance(leaf, tuple(INJ))):
                if self.harness_exc is None:
                    self.harness_exc = leaf

    def type_of(self, node_id: int) -> Any:
        """The child's type as it is handed to asphalt: the class, or (every third one) a reference string."""
        if node_id % 3 == 1:
            return f"{__name__}:_dyn_component_{node_id}"
        return self.classes[node_id]

    def config(self, node: dict) -> dict:
        """External configuration for `node` (children declared by config or both)."""
        comps: dict[str, Any] = {}
        for ch in self.nodes:
            if ch["parent"] != node["id"]:
                continue
            sub = self.config(ch)
            if ch["declare"] == "config":
                comps[ch["alias"]] = {"type": self.type_of(ch["id"]), **sub}
            elif ch["declare"] == "both":
                comps[ch["alias"]] = dict(sub)  # (None would REPLACE the hard-coded configuration)
            elif sub:
                comps[ch["alias"]] = dict(sub)
        return {"components": comps} if comps else {}

    async def main(self) -> None:
        from asphalt.core import Context, start_component
        from asphalt.core import get_resource as outside_get

        for node in reversed(self.nodes):
            self.classes[node["id"]] = self.make_class(node)
            # (also reachable as "module:attribute" references: a component type may be given as such a string)
            globals()[f"_dyn_component_{node['id']}"] = self.classes[node["id"]]
        cfg = self.config(self.nodes[0])
        try:
            async with Context() as outer:
                async with Context() as ctx:
                    self.ctx = ctx
                    self.t0 = now()
                    try:
                        tkw = {} if self.timeout == "default" else {"timeout": self.timeout}
                        self.result = await start_component(self.classes[0], cfg or None, **tkw)
                        self.t_return = now()
                        self.ev("returned", "")
                    except BaseException as exc:
                        if isinstance(exc, anyio.get_cancelled_exc_class()):
                            raise
                        self.note_escape(exc)
                        self.error = exc
                        self.error_time = now()
                        self.trace_len_at_error = len(self.trace)
                        await anyio.sleep(10**4)
                        self.trace_len_after_quiet = len(self.trace)
                    else:
                        n0 = len(self.trace)
                        await anyio.sleep(10**4)
                        self.quiet_after_return = len(self.trace) == n0
                    # requests outside startup never wait
                    for o in self.case.get("outside", []):
                        b = self.ev("outside-begin", "", t_=o["t"], name=o["name"], optional=o["optional"])
                        res, err = None, None
                        try:
                            res = await outside_get(RTYPES[o["t"]], o["name"], optional=o["optional"])
                        except Exception as exc:
                            err = type(exc).__name__
                        self.ev("outside-end", "", t_=o["t"], name=o["name"], optional=o["optional"], begin=b["s"],
                                obj=id(res) if res is not None else None, err=err)
                    for ti, T in enumerate(RTYPES):
                        self.views_after[ti] = {n: id(v) for n, v in ctx.get_resources(T).items()}
                        self.parent_views_after[ti] = dict(outer.get_resources(T))
                    self.factories_after = {(RTYPES.index(t), n) for (t, n) in ctx._resource_factories if t in RTYPES}
                    self.parent_factories_after = len(outer._resource_factories)
                    self.ev("leaving", "")
                self.ev("left", "")
                self.svc_running_after_exit = set(self.svc_running)
        except BaseException as exc:
            if isinstance(exc, (Deadlock,)):
                raise
            self.note_escape(exc)
            self.exit_error = exc


class Judge:
    def __init__(self, case: dict, prop: str) -> None:
        self.case = case
        self.prop = prop
        self.out = Outcome()

    def disc(self, cls: str, bucket: str, msg: str) -> None:
        if cls in PROP_CLASSES[self.prop]:
            self.out.add(cls, f"{cls}:{bucket}", msg)

    # ---- common: ownership and teardown -----------------------------------------------
    def ownership(self, r: Run) -> None:
        if r.exit_error is not None:
            self.disc("ownership", "context-exit-raised", f"leaving the surrounding context raised {short_exc(r.exit_error)}")
            return
        # (a service task whose start_service_task() call was itself cancelled never got registered)
        ran = [m for m in r.td_ran if m in r.td_registered or not m.startswith("svc:")]
        if ran != list(reversed(r.td_registered)):
            missing = [m for m in r.td_registered if m not in r.td_ran]
            b = "teardown-missing" if missing else "teardown-order"
            self.disc("ownership", b, f"teardown ran {r.td_ran}; registered (in order) {r.td_registered}")
        left = [e for e in r.trace if e["k"] == "left"]
        if left:
            late = [e for e in r.trace if e["k"] == "teardown" and e["s"] > left[0]["s"]]
            if late:
                self.disc("ownership", "teardown-after-exit", f"teardown markers after the context was left: {[e['p'] for e in late]}")
        if getattr(r, "svc_running_after_exit", None):
            self.disc("ownership", "service-task-survives", f"service tasks still running after the context was left: {r.svc_running_after_exit}")
        if any(r.parent_views_after.get(ti) for ti in r.parent_views_after) or getattr(r, "parent_factories_after", 0):
            self.disc("ownership", "visible-in-parent", f"resources registered by components are visible in the PARENT of the calling context: "
                      f"{r.parent_views_after}")

    def expected_pubs(self, r: Run) -> list[dict]:
        return [e for e in r.trace if e["k"] == "publish"]

    # ---- C05 ------------------------------------------------------------------------------
    def order(self, r: Run) -> None:
        case = self.case
        nodes = case["nodes"]
        paths = r.paths
        if r.error is not None or r.exit_error is not None:
            exc = r.error or r.exit_error
            kind = "timeout" if isinstance(exc, TimeoutError) else type(exc).__name__
            self.disc("order", f"startup-failed:{kind}", f"start_component raised {short_exc(exc)} for an acyclic dependency pattern; "
                      f"trace tail {[(e['k'], e['p'], e['t']) for e in r.trace[-6:]]}")
            return
        tr = r.trace
        by = lambda k, p: [e for e in tr if e["k"] == k and e["p"] == p]  # noqa: E731
        # 1. every constructor before the first prepare/start
        inits = [e for e in tr if e["k"] == "init"]
        first_phase = next((e for e in tr if e["k"] in ("prepare-begin", "start-begin")), None)
        if first_phase is not None and any(e["s"] > first_phase["s"] for e in inits):
            self.disc("order", "lazy-instantiation", f"a component was constructed after {first_phase['k']} of {first_phase['p']!r} began")
        for n in nodes:
            p = paths[n["id"]]
            if len(by("init", p)) != 1:
                self.disc("order", "init-count", f"component {p!r} constructed {len(by('init', p))} times")
            for ph in ("prepare", "start"):
                want = 1 if n[ph] is not None else 0
                if len(by(f"{ph}-begin", p)) != want or len(by(f"{ph}-end", p)) != want:
                    self.disc("order", f"{ph}-count", f"{ph}() of {p!r} began {len(by(f'{ph}-begin', p))} / ended {len(by(f'{ph}-end', p))} times, expected {want}")
                    return
        # launch / done times from observed events
        launch: dict[int, float] = {}
        done: dict[int, float] = {}

        def children(i: int) -> list[dict]:
            return [x for x in nodes if x["parent"] == i]

        def t_of(k: str, i: int) -> float:
            return by(k, paths[i])[0]["t"]

        def s_of(k: str, i: int) -> int:
            return by(k, paths[i])[0]["s"]

        def set_launch(i: int, t: float) -> None:
            launch[i] = t
            n = nodes[i]
            child_launch = t_of("prepare-end", i) if n["prepare"] is not None else t
            for ch in children(i):
                set_launch(ch["id"], child_launch)

        def get_done(i: int) -> float:
            n = nodes[i]
            kids = [get_done(ch["id"]) for ch in children(i)]
            if n["start"] is not None:
                d_ = t_of("start-end", i)
            elif kids:
                d_ = max(kids)
            elif n["prepare"] is not None:
                d_ = t_of("prepare-end", i)
            else:
                d_ = launch[i]
            done[i] = d_
            return d_

        set_launch(0, r.t0)
        get_done(0)
        for n in nodes:
            i, p = n["id"], paths[n["id"]]
            # first own event happens at launch time (children are started concurrently)
            first_kind = "prepare-begin" if n["prepare"] is not None else ("start-begin" if (n["start"] is not None and not children(i)) else None)
            if first_kind and t_of(first_kind, i) != launch[i]:
                self.disc("order", "children-not-concurrent", f"{first_kind} of {p!r} at t={t_of(first_kind, i)}, but its parent released its children "
                          f"at t={launch[i]} (siblings must start concurrently)")
                return
            if n["prepare"] is not None:
                pe = s_of("prepare-end", i)
                for ch in children(i):
                    for k in ("prepare-begin", "start-begin"):
                        evs = by(k, paths[ch["id"]])
                        if evs and evs[0]["s"] < pe:
                            self.disc("order", "child-before-parent-prepare", f"{k} of {paths[ch['id']]!r} precedes the end of prepare() of {p!r}")
                            return
                if n["start"] is not None and s_of("start-begin", i) < pe:
                    self.disc("order", "start-before-prepare", f"start() of {p!r} began before its prepare() ended")
            if n["start"] is not None:
                sb = s_of("start-begin", i)
                for j in [x["id"] for x in nodes if i in _ancestors(nodes, x["id"])]:
                    for k in ("start-end", "prepare-end"):
                        evs = by(k, paths[j])
                        if evs and evs[0]["s"] > sb:
                            self.disc("order", "start-before-descendants", f"start() of {p!r} began before {k} of its descendant {paths[j]!r}")
                            return
                if children(i):
                    want = max(done[ch["id"]] for ch in children(i))
                    if t_of("start-begin", i) != want:
                        self.disc("order", "start-time", f"start() of {p!r} began at t={t_of('start-begin', i)}, children were done at t={want}")
        # returned object / return time
        insts = r.instances.get(0, [])
        if not insts or r.result is not insts[0]:
            self.disc("order", "return-value", f"start_component returned {r.result!r}, not the root component instance")
        ret = [e for e in tr if e["k"] == "returned"][0]
        root_end = by("start-end", "") or by("prepare-end", "")
        if nodes[0]["start"] is not None and root_end and root_end[0]["s"] > ret["s"]:
            self.disc("order", "returned-early", "start_component returned before the root's start() ended")
        if ret["t"] != done[0]:
            self.disc("order", "return-time", f"start_component returned at t={ret['t']}, the tree was done at t={done[0]}")
        if not getattr(r, "quiet_after_return", True):
            self.disc("order", "work-after-return", "component code kept running after start_component returned")
        # everything registered is visible in the calling context
        for e in self.expected_pubs(r):
            for t in e["types"]:
                if e["how"] == "static":
                    if r.views_after.get(t, {}).get(e["name"]) != e["obj"]:
                        self.disc("ownership", "not-visible-in-caller", f"resource ({t}, {e['name']!r}) published by {e['p']!r} is not in the calling context afterwards")
                elif (t, e["name"]) not in r.factories_after:
                    self.disc("ownership", "not-visible-in-caller", f"factory ({t}, {e['name']!r}) published by {e['p']!r} is not in the calling context afterwards")

    # ---- C06 ------------------------------------------------------------------------------
    def waits(self, r: Run) -> None:
        tr = r.trace
        pubs = self.expected_pubs(r)
        if r.error is not None or r.exit_error is not None:
            exc = r.error or r.exit_error
            cause = getattr(exc, "__cause__", None)
            unfinished = [e for e in tr if e["k"] == "wait-begin" and not any(x.get("begin") == e["s"] and x["k"] == "wait-end" for x in tr)]
            if isinstance(exc, TimeoutError) or isinstance(exc, Deadlock):
                # which waits were satisfiable? (a matching publication exists in the trace)
                lost = [w for w in unfinished if any(w["t_"] in p["types"] and w["name"] == p["name"] for p in pubs)]
                burst = max([e["n"] for e in tr if e["k"] == "burst"] or [0])
                b = "lost-wakeup" + (":burst>=51" if burst >= 51 else "")
                self.disc("wait", b, f"startup timed out; waits {[(w['p'], w['t_'], w['name']) for w in lost]} never returned although matching "
                          f"publications happened (largest burst {burst})")
            else:
                nf = type(cause).__name__ if cause is not None else ""
                b = "false-wakeup" if nf == "ResourceNotFound" else "startup-failed:" + type(exc).__name__
                self.disc("wait", b, f"start_component raised {short_exc(exc)} (cause {cause!r})")
            return
        for g in [e for e in tr if e["k"] == "wait-gaveup"]:
            gb = tr[g["begin"]]
            match = [p for p in pubs if g["t_"] in p["types"] and p["name"] == g["name"]]
            first_t = min((p["t"] for p in match), default=float("inf"))
            deadline = gb["t"] + gb["giveup"]
            if first_t < deadline:
                self.disc("wait", "lost-wakeup:gave-up", f"{g['p']!r} waited for ({g['t_']}, {g['name']!r}) from t={gb['t']} for {gb['giveup']} ticks and gave up, "
                          f"although a matching publication happened at t={first_t}")
            elif g["t"] != deadline:
                self.disc("wait", "giveup-time", f"{g['p']!r} gave up at t={g['t']}, its own deadline was t={deadline}")
        for w in [e for e in tr if e["k"] == "wait-end"]:
            wb = tr[w["begin"]]
            match = [p for p in pubs if w["t_"] in p["types"] and p["name"] == w["name"]]
            if not match:
                raise HarnessError(f"wait without publication: {w}")
            first = min(match, key=lambda p: p["s"])
            want_t = max(wb["t"], first["t"])
            if w["t"] != want_t:
                b = "released-early" if w["t"] < want_t else "released-late"
                self.disc("wait", b, f"{w['p']!r} waited for ({w['t_']}, {w['name']!r}) from t={wb['t']}; matching publication at t={first['t']} by "
                          f"{first['p']!r}; get_resource returned at t={w['t']}")
                continue
            statics = [p for p in match if p["how"] == "static" and p["s"] < w["s"]]
            if statics:
                ok = w["obj"] == statics[0]["obj"]
            else:
                ok = any(w["obj"] in p.get("made", []) for p in match if p["how"] == "factory")
            if not ok:
                self.disc("wait", "wrong-object", f"{w['p']!r} waiting for ({w['t_']}, {w['name']!r}) got an object that is not the published one")
        # optional / sync lookups and requests outside startup never wait
        for e in [x for x in tr if x["k"] in ("lookup-end", "outside-end")]:
            b = tr[e["begin"]]
            present = [p for p in pubs if e["t_"] in p["types"] and p["name"] == e["name"] and p["s"] < b["s"]]
            api = e.get("api") or ("optional" if e.get("optional") else "required")
            if e["s"] != b["s"] + 1 or e["t"] != b["t"]:
                self.disc("wait", "non-waiting-lookup-waited", f"{api} lookup of ({e['t_']}, {e['name']!r}) by {e['p']!r}/outside took from t={b['t']} "
                          f"(event {b['s']}) to t={e['t']} (event {e['s']}): other tasks ran in between")
                continue
            if present:
                p0 = min(present, key=lambda p: p["s"])
                stat = [p for p in present if p["how"] == "static"]
                if e["err"] == "AsyncResourceError":
                    continue
                if e["obj"] is None:
                    self.disc("wait", "lookup-missed-present", f"{api} lookup of ({e['t_']}, {e['name']!r}) returned {e['err'] or None} although published")
                elif stat and e["obj"] != stat[0]["obj"]:
                    self.disc("wait", "wrong-object", f"{api} lookup of ({e['t_']}, {e['name']!r}) returned another object")
                del p0
            else:
                want_err = None if api in ("optional", "nowait_optional") else "ResourceNotFound"
                if e["obj"] is not None or e["err"] != want_err:
                    self.disc("wait", "lookup-of-missing", f"{api} lookup of missing ({e['t_']}, {e['name']!r}) gave obj={e['obj']} err={e['err']}, expected {want_err}")

    # ---- C07 ------------------------------------------------------------------------------
    def fault(self, r: Run) -> None:
        from asphalt.core import ComponentStartError

        case = self.case
        f = case["fault"]
        nodes = case["nodes"]
        path = r.paths[f["node"]]
        exc = r.error
        if r.nested_problem:
            self.disc("fault", "nested-start", r.nested_problem)
        if exc is None:
            self.disc("fault", "failure-swallowed", f"component {path!r} failed while {f['phase']} but start_component returned normally")
            return
        if not isinstance(exc, ComponentStartError):
            self.disc("fault", "wrong-error-type", f"start_component raised {short_exc(exc)} ({_tree(exc)}), expected ComponentStartError")
            return
        if exc.phase != f["phase"]:
            self.disc("fault", "wrong-phase", f"ComponentStartError.phase={exc.phase!r}, expected {f['phase']!r}")
        if exc.path != path:
            self.disc("fault", "wrong-path", f"ComponentStartError.path={exc.path!r}, expected {path!r}")
        if exc.component_type is not r.classes[f["node"]]:
            self.disc("fault", "wrong-class", f"ComponentStartError.component_type={exc.component_type!r}")
        if exc.__cause__ is not r.injected:
            self.disc("fault", "wrong-cause", f"__cause__ is {exc.__cause__!r}, injected {r.injected!r}")
        tr = r.trace
        fail_ev = [e for e in tr if e["k"] == "fail"][0]
        if r.error_time != fail_ev["t"]:
            self.disc("fault", "error-delayed", f"{path!r} failed at t={fail_ev['t']} but start_component raised at t={r.error_time}: "
                      f"siblings still starting were not stopped")
        if f["phase"] != "creating":
            for a in _ancestors(nodes, f["node"]):
                if any(e["k"] == "start-begin" and e["p"] == r.paths[a] for e in tr):
                    self.disc("fault", "ancestor-started", f"start() of ancestor {r.paths[a]!r} ran although {path!r} failed")
        else:
            if any(e["k"] in ("prepare-begin", "start-begin") for e in tr):
                self.disc("fault", "phase-after-failed-construction", "prepare()/start() ran although a constructor failed")
        self.aftermath(r, fail_ev["s"])

    def aftermath(self, r: Run, after_serial: int) -> None:
        tr = r.trace
        if r.trace_len_after_quiet != r.trace_len_at_error:
            extra = tr[r.trace_len_at_error:r.trace_len_after_quiet]
            self.disc("fault", "work-after-error", f"component code kept running after start_component raised: {[(e['k'], e['p'], e['t']) for e in extra[:5]]}")
        # every phase that had begun and not ended was cancelled
        for e in [x for x in tr if x["k"] in ("prepare-begin", "start-begin")]:
            ph = e["k"].split("-")[0]
            ended = [x for x in tr if x["k"] == f"{ph}-end" and x["p"] == e["p"]]
            aborted = [x for x in tr if x["k"] == f"{ph}-aborted" and x["p"] == e["p"]]
            if not ended and not aborted:
                self.disc("fault", "phase-left-running", f"{ph}() of {e['p']!r} neither ended nor was cancelled")
            if ended and ended[0]["s"] > (r.trace_len_at_error or 10**9):
                self.disc("fault", "work-after-error", f"{ph}() of {e['p']!r} ended after the error was raised")

    def timeout(self, r0: Run, r1: Run, T: float, L: float) -> None:
        if T > L:
            if r1.error is not None:
                self.disc("fault", "timeout-affected-fast-startup", f"startup takes {L} virtual seconds, timeout={T}: raised {short_exc(r1.error)}")
                return
            # (which of two components runs first within one virtual instant is the scheduler's choice, and the
            # watcher task of the timeout changes trio's seeded choices: a lookup racing a publication may go either
            # way and shift later times.  What must agree is WHAT happened: the same phases began and ended)
            a = [(e["k"], e["p"]) for e in r0.trace if e["k"] not in ("teardown", "lookup", "publish")]
            b = [(e["k"], e["p"]) for e in r1.trace if e["k"] not in ("teardown", "lookup", "publish")]
            if sorted(a) != sorted(b):
                self.disc("fault", "timeout-changed-trace", f"startup with timeout={T} > duration {L} produced a different trace than without timeout")
        else:
            if not isinstance(r1.error, TimeoutError):
                self.disc("fault", "timeout-not-raised", f"startup takes {L} virtual seconds, timeout={T}: "
                          f"{'returned normally' if r1.error is None else 'raised ' + short_exc(r1.error) + ' ' + _tree(r1.error)}")
                return
            if r1.error_time != r1.t0 + T:
                self.disc("fault", "timeout-time", f"TimeoutError observed at t={r1.error_time}, expected {r1.t0 + T}")
            self.aftermath(r1, 0)

    def stall(self, r: Run, T: float) -> None:
        if not isinstance(r.error, TimeoutError):
            self.disc("fault", "timeout-not-raised", f"a component stalls, timeout={T}: "
                      f"{'returned normally' if r.error is None else 'raised ' + short_exc(r.error) + ' ' + _tree(r.error)}")
            return
        if r.error_time != r.t0 + T:
            self.disc("fault", "timeout-time", f"TimeoutError observed at t={r.error_time}, expected {r.t0 + T}")
        self.aftermath(r, 0)


def _tree(exc: BaseException | None) -> str:
    if isinstance(exc, BaseExceptionGroup):
        return f"{type(exc).__name__}[{', '.join(_tree(e) for e in exc.exceptions)}]"
    return repr(exc)


def _execute(case: dict, timeout: Any) -> Run:
    r = Run(case, timeout)
    try:
        run_virtual(case["backend"], r.main, sched_seed=case.get("sched_seed", 0))
    except Deadlock as exc:
        if r.error is None:
            r.error = exc
    except HarnessError:
        raise
    except BaseException as exc:
        r.note_escape(exc)
        if r.harness_exc is not None or any(innermost_is_harness(l) for l in flatten_exc(exc)):
            raise
        r.exit_error = exc
    if r.harness_exc is not None:
        raise HarnessError(f"harness exception inside the run: {short_exc(r.harness_exc)}") from r.harness_exc
    return r


def validate(case: dict) -> None:
    """The generator's invariant (also protects the minimiser): every wait targets a pair that is
    published earlier in the same phase or in a phase that precedes it in the case's linearisation,
    so the dependency pattern is acyclic by construction."""
    nodes = case["nodes"]
    ids = {n["id"] for n in nodes}
    if sorted(ids) != list(range(len(nodes))):
        raise HarnessError("node ids not contiguous")
    lin = [tuple(x) for x in case.get("lin", [])]
    have = [(n["id"], ph) for n in nodes for ph in ("prepare", "start") if n[ph] is not None]
    if sorted(lin) != sorted(have):
        raise HarnessError("linearisation does not match the phases")
    # the linearisation must respect the built-in order
    pos = {p: k for k, p in enumerate(lin)}
    for (i, ph) in lin:
        for a in _ancestors(nodes, i):
            if nodes[a]["prepare"] is not None and pos[(a, "prepare")] > pos[(i, ph)]:
                raise HarnessError("linearisation violates prepare-before-children")
            if nodes[a]["start"] is not None and pos[(a, "start")] < pos[(i, ph)]:
                raise HarnessError("linearisation violates children-before-start")
        if ph == "start" and nodes[i]["prepare"] is not None and pos[(i, "prepare")] > pos[(i, "start")]:
            raise HarnessError("linearisation violates prepare-before-start")
    published: set[tuple[int, str]] = set()
    for (i, ph) in lin:
        for st_ in nodes[i][ph]:
            if st_["op"] == "publish":
                for t in st_["types"]:
                    if (t, st_["eff"]) in published:
                        raise HarnessError("pair published twice")
                    published.add((t, st_["eff"]))
                want = _default_name(nodes[i]) if (st_["name"] == "default" and ph == "start") else st_["name"]
                if st_["eff"] != want:
                    raise HarnessError("effective name out of date")
            elif st_["op"] == "wait" and (st_["t"], st_["name"]) not in published:
                raise HarnessError("wait without an earlier publication")


def run_case(case: dict, prop: str) -> Outcome:
    validate(case)
    j = Judge(case, prop)
    mode = case.get("mode", "order")
    nodes = case["nodes"]
    if mode in ("order",):
        r = _execute(case, 10**6)
        if prop == "C05":
            j.order(r)
            j.ownership(r)
        else:
            j.waits(r)
    elif mode == "fault":
        r = _execute(case, case.get("fault_timeout", 10**6))
        j.fault(r)
        j.ownership(r)
    elif mode == "timeout":
        r0 = _execute(case, None)
        if r0.error is not None or r0.exit_error is not None:
            j.disc("fault", "startup-failed-without-timeout", f"baseline run failed: {short_exc(r0.error or r0.exit_error)}")
            r = r0
        else:
            L = r0.t_return - r0.t0  # type: ignore[operator]
            T = L + case["timeout_delta"]
            if T <= 0:
                T = L + abs(case["timeout_delta"])
            r = _execute(case, T)
            j.timeout(r0, r, T, L)
            j.ownership(r)
    elif mode == "stall":
        r = _execute(case, case["stall_timeout"])
        j.stall(r, 20 if case["stall_timeout"] == "default" else case["stall_timeout"])
        j.ownership(r)
    else:
        raise HarnessError(mode)
    out = j.out
    tr = r.trace
    depth = max(_depth(nodes, n["id"]) for n in nodes) + 1
    n_wait = sum(1 for e in tr if e["k"] == "wait-begin")
    real_waits = [e for e in tr if e["k"] == "wait-end" and e["t"] > tr[e["begin"]]["t"]]
    durations = any(e["k"].endswith("-end") and "begin" in e and e["t"] > tr[e["begin"]]["t"] for e in tr)
    labs = {case["backend"], f"mode={mode}", f"components={min(len(nodes), 8)}", f"depth={depth}"}
    if n_wait:
        labs.add("has-wait")
    if real_waits:
        labs.add("wait-blocked-until-publication")
    pubs = [e for e in tr if e["k"] == "publish"]
    # request and publication within one checkpoint of each other
    race = False
    decoy = False
    for w in [e for e in tr if e["k"] == "wait-begin"]:
        for p in pubs:
            if (w["t_"] in p["types"] and p["name"] == w["name"] and abs(p["s"] - w["s"]) <= 3 and p["t"] == w["t"]
                    and p["p"] != w["p"]):
                race = True  # another component publishes within 3 trace events of the request
            if (w["t_"] in p["types"]) != (p["name"] == w["name"]):
                decoy = True
    if race:
        labs.add("race-window")
    if any("/" in n["alias"] for n in nodes):
        labs.add("alias-remap")
    if any(e["k"] == "burst" for e in tr):
        labs.add("burst")
    if any(n["declare"] != "add" for n in nodes[1:]):
        labs.add("children-from-config")
    out.labels = sorted(labs)
    if prop == "C05":
        sib_wait = any(e["k"] == "wait-end" for e in tr)
        out.nontrivial = (depth >= 3 or sib_wait) and durations
    elif prop == "C06":
        late = any(e["k"] == "wait-end" and e["t"] > tr[e["begin"]]["t"] for e in tr) or any(
            e["k"] == "wait-end" and any(p["s"] > tr[e["begin"]]["s"] for p in pubs if e["t_"] in p["types"] and p["name"] == e["name"]) for e in tr)
        out.nontrivial = (late and decoy) or race
    else:
        f = case.get("fault")
        if mode == "fault":
            mid = [e for e in tr if e["k"].endswith("-aborted") and e.get("cancelled")]
            out.nontrivial = _depth(nodes, f["node"]) >= 2 or bool(mid)
        else:
            mid = [e for e in tr if e["k"].endswith("-aborted")]
            out.nontrivial = len(mid) >= 2 or (mode == "timeout" and case["timeout_delta"] > 0 and len(nodes) >= 3)
    out.trace = [(e["s"], e["k"], e["p"], e["t"]) for e in tr[:70]]
    return out


def shrink_candidates(case: dict):
    nodes = case["nodes"]
    # drop a leaf component
    for n in reversed(nodes):
        i = n["id"]
        if i == 0 or any(x["parent"] == i for x in nodes):
            continue
        if case.get("fault") and case["fault"]["node"] == i:
            continue
        c = copy.deepcopy(case)
        c["nodes"] = [x for x in c["nodes"] if x["id"] != i]
        for x in c["nodes"]:
            if x["id"] > i:
                x["id"] -= 1
            if x["parent"] is not None and x["parent"] > i:
                x["parent"] -= 1
        if c.get("fault") and c["fault"]["node"] > i:
            c["fault"]["node"] -= 1
        c["lin"] = [[j - 1 if j > i else j, ph] for j, ph in c["lin"] if j != i]
        yield c
    for n in nodes:
        for ph in ("prepare", "start"):
            steps = n[ph]
            if steps is None:
                continue
            for si, st_ in enumerate(steps):
                if st_["op"] in ("fail", "stall"):
                    continue
                c = copy.deepcopy(case)
                del c["nodes"][n["id"]][ph][si]
                yield c
            for si, st_ in enumerate(steps):
                for field, val in (("d", 1), ("n", 1)):
                    if st_.get(field, val) != val and st_["op"] in ("sleep", "cp", "burst"):
                        c = copy.deepcopy(case)
                        c["nodes"][n["id"]][ph][si][field] = val
                        yield c
            if not steps:
                c = copy.deepcopy(case)
                c["nodes"][n["id"]][ph] = None
                c["lin"] = [x for x in c["lin"] if x != [n["id"], ph]]
                yield c
        if n["declare"] != "add" and n["id"] != 0:
            c = copy.deepcopy(case)
            c["nodes"][n["id"]]["declare"] = "add"
            yield c
        if "/" in n["alias"]:
            c = copy.deepcopy(case)
            c["nodes"][n["id"]]["alias"] = f"c{n['id']}"
            yield c
    for key, val in (("backend", "asyncio"), ("sched_seed", 0), ("outside", [])):
        if case.get(key, val) != val:
            c = copy.deepcopy(case)
            c[key] = val
            yield c
