"""C14 - component configuration is a layered deep merge that fully determines the tree.

case = {backend, sched_seed, classes: [{children: [{alias, type, cls, kwargs}], publish: [{phase, name}]} x 8],
        root: i, root_how: class|ref|entrypoint, ext: {...}}
`ext` is the external configuration handed to start_component; types inside it are encoded as
{"$type": [how, j]} and thawed into the class object / "verif_c14_mod:Kj" / "epj".
"""

from __future__ import annotations

import copy
from typing import Any

from hypothesis import strategies as st

from harness.core import HarnessError, Outcome, flatten_exc, innermost_is_harness, short_exc
from harness.engines.config_merge import ref_merge
from harness.gen import BACKEND, SEED, D
from harness.vloop import Deadlock, run_virtual

NCLS = 8
HOWS = ["class", "ref", "entrypoint"]


# =====================================================================================
# generation
# =====================================================================================


def _value(d: D, depth: int = 0) -> Any:
    k = d.weighted([("int", 35), ("str", 20), ("dict", 25 if depth < 2 else 0), ("list", 10), ("none", 10)])
    if k == "int":
        if d.pct(25):
            return d.pick([0, 1, False, True, 0.0, 1.0])  # equal values of different types stay different settings
        return d.int(0, 9)
    if k == "str":
        return d.pick(["s", "t", ""])
    if k == "list":
        return [d.int(0, 3) for _ in range(d.int(0, 2))]
    if k == "none":
        return None
    return {key: _value(d, depth + 1) for key in _keys(d, 3)}


def _keys(d: D, hi: int) -> list[str]:
    out: list[str] = []
    for _ in range(d.int(0, hi)):
        k = d.pick(["a", "b", "c", "d"])
        if k not in out:
            out.append(k)
    return out


def _nest(leaf: dict, levels: int) -> dict:
    cur = leaf
    for _ in range(levels):
        cur = {"k": cur}
    return cur


def _nest_depth(v: Any) -> int:
    n = 0
    while isinstance(v, dict) and set(v) == {"k"}:
        v, n = v["k"], n + 1
    return n


def _kwargs(d: D) -> dict:
    kw = {k: _value(d) for k in _keys(d, 3)}
    if d.pct(4):
        # an option that is a mapping nested far deeper than usual: "at every depth" has no limit
        kw["deep"] = _nest({"x": 1, "y": 2}, d.pick([7, 9, 12, 20]))
    if d.pct(45):
        # options that are themselves sections (logging-style dicts) are what deep merging is for
        kw[d.pick(["a", "b", "opts"])] = {key: _value(d, 1) for key in (_keys(d, 3) or ["a"])}
    return kw


def _retyped(v: Any) -> Any:
    """The same settings with other types that compare equal: 0 -> False, 1 -> True, other ints -> floats."""
    if isinstance(v, dict):
        return {k: _retyped(x) for k, x in v.items()}
    if isinstance(v, list):
        return [_retyped(x) for x in v]
    if isinstance(v, bool):
        return int(v)
    if isinstance(v, int):
        return bool(v) if v in (0, 1) else float(v)
    if isinstance(v, float) and v.is_integer():
        return int(v)
    return v


def _override(d: D, base: dict, depth: int = 0) -> dict:
    """External values for (some of) the keys of `base`, plus new keys."""
    out: dict[str, Any] = {}
    for k, v in base.items():
        r = d.int(0, 99)
        if k == "deep" and depth == 0 and _nest_depth(v) >= 7:
            if r < 80:
                out[k] = _nest({"y": 3, "z": 4}, _nest_depth(v))  # touches only the innermost level
            continue
        if r < 40:
            continue
        if isinstance(v, (dict, int, float)) and r < 48 and _retyped(v) is not v and repr(_retyped(v)) != repr(v):
            out[k] = _retyped(v)  # equal to the default, but not the same settings
            continue
        if isinstance(v, dict) and r < 90 and depth < 2:
            out[k] = _override(d, v, depth + 1)  # dict on both sides: merged at depth
        else:
            out[k] = _value(d, depth + 1)
    for k in _keys(d, 2):
        out.setdefault(k, _value(d, depth + 1))
    return out


class _G:
    def __init__(self, d: D, tier: str) -> None:
        self.d = d
        self.classes: list[dict] = []
        self.n_alias = 0
        self.max_depth = 3 if tier == "quick" else 4

    def gen_classes(self) -> None:
        d = self.d
        for i in range(NCLS):
            children = []
            if i < NCLS - 2:
                for _ in range(d.weighted([(0, 20), (1, 40), (2, 30), (3, 10)])):
                    j = d.int(i + 1, NCLS - 1)
                    how = d.weighted([("class", 35), ("ref", 20), ("entrypoint", 20), ("omitted", 25)])
                    children.append({"alias": self.alias(how, j, [c["alias"] for c in children]), "type": how, "cls": j, "kwargs": _kwargs(d)})
            names = []
            publish = []
            for _ in range(d.int(0, 2)):
                nm = d.pick(["default", "default", "x", "y"])
                if nm not in names:
                    names.append(nm)
                    publish.append({"phase": d.pick(["prepare", "start"]), "name": nm})
            self.classes.append({"children": children, "publish": publish})

    def alias(self, how: str, j: int, taken: list[str]) -> str:
        d = self.d
        for _ in range(10):
            self.n_alias += 1
            if how == "omitted":
                a = f"ep{j}" if d.pct(40) else f"ep{j}/nm{self.n_alias}"
            else:
                a = f"c{self.n_alias}" if d.pct(70) else f"kind{self.n_alias}/nm{self.n_alias}"
            if a not in taken:
                return a
        return f"ep{j}/u{self.n_alias}" if how == "omitted" else f"u{self.n_alias}"

    def components_cfg(self, i: int, depth: int) -> dict:
        """External `components` section for a node of class i."""
        d = self.d
        out: dict[str, Any] = {}
        taken = [c["alias"] for c in self.classes[i]["children"]]
        for ch in self.classes[i]["children"]:
            if not d.pct(75):
                continue
            entry = _override(d, ch["kwargs"])
            c = ch["cls"]
            if d.pct(15):
                c = d.int(min(i + 1, NCLS - 1), NCLS - 1)
                entry["type"] = {"$type": [d.pick(HOWS), c]}
            if depth < self.max_depth and d.pct(55):
                sub = self.components_cfg(c, depth + 1)
                if sub:
                    entry["components"] = sub
            out[ch["alias"]] = entry
        if depth < self.max_depth:
            for _ in range(d.weighted([(0, 50), (1, 35), (2, 15)])):
                j = d.int(min(i + 1, NCLS - 1), NCLS - 1)
                how = d.weighted([("class", 30), ("ref", 20), ("entrypoint", 20), ("omitted", 30)])
                a = self.alias(how, j, taken + list(out))
                if how == "omitted" and d.pct(35):
                    out[a] = None  # a config-only child without any options
                    continue
                entry = _kwargs(d)
                if how != "omitted":
                    entry["type"] = {"$type": [how, j]}
                if d.pct(40):
                    sub = self.components_cfg(j, depth + 1)
                    if sub:
                        entry["components"] = sub
                out[a] = entry
        return out


@st.composite
def cases(draw: Any, tier: str) -> dict:
    d = D(draw)
    g = _G(d, tier)
    g.gen_classes()
    root = d.int(0, 3)
    ext: dict[str, Any] = _kwargs(d) if d.pct(40) else {}
    ext.pop("components", None)
    sub = g.components_cfg(root, 1)
    if sub:
        ext["components"] = sub
    if d.pct(3):
        # a chain of configuration-only components far deeper than the generated trees usually are
        chain: dict[str, Any] | None = None
        for k in range(d.pick([10, 17, 20, 25]), 0, -1):
            entry: dict[str, Any] = {"type": {"$type": [d.pick(["class", "ref"]), NCLS - 1]}}
            if k % 4 == 0:
                entry["a"] = k
            if chain is not None:
                entry["components"] = chain
            chain = {f"lvl{k}": entry}
        ext.setdefault("components", {}).update(chain or {})
    return {"backend": draw(BACKEND), "sched_seed": draw(SEED), "classes": g.classes, "root": root, "root_how": d.pick(HOWS),
            "ext": ext, "none_config": (not ext) and d.bool()}


def strategy(prop: str, tier: str) -> st.SearchStrategy:
    return cases(tier)


# =====================================================================================
# reference: the expected tree
# =====================================================================================


def resolve_type(t: Any, alias: str) -> int:
    """type spelling (encoded) or alias -> class index"""
    if t is None:
        t = alias
    if isinstance(t, dict):
        return t["$type"][1]
    if isinstance(t, str):
        head = t.split("/")[0]
        if head.startswith("ep") and head[2:].isdigit():
            return int(head[2:])
    raise HarnessError(f"unresolvable type {t!r} for alias {alias!r}")


def expected_tree(case: dict) -> list[dict]:
    out: list[dict] = []

    def build(i: int, path: str, alias: str, cfg: dict) -> None:
        cfg = dict(cfg)
        ext_children = cfg.pop("components", None) or {}
        cfg.pop("type", None)
        out.append({"path": path, "cls": i, "kwargs": cfg, "alias": alias})
        hard = {}
        for ch in case["classes"][i]["children"]:
            t = {"$type": [ch["type"], ch["cls"]]} if ch["type"] != "omitted" else ch["alias"]
            hard[ch["alias"]] = {"type": t, **ch["kwargs"]}
        merged = ref_merge(hard, ext_children)
        for a, ccfg in merged.items():
            ccfg = {} if ccfg is None else dict(ccfg)
            j = resolve_type(ccfg.get("type"), a)
            build(j, f"{path}.{a}" if path else a, a, ccfg)

    build(case["root"], "", "", case["ext"])
    return out


# =====================================================================================
# interpreter
# =====================================================================================


class Run:
    def __init__(self, case: dict, shared_defaults: dict | None = None) -> None:
        self.case = case
        # hard-coded keyword arguments are module-level style defaults: the SAME objects are
        # handed to add_component() by every instance and every start
        self.shared_defaults = shared_defaults if shared_defaults is not None else {}
        self.created: list[tuple] = []
        self.instance_paths: dict[int, str] = {}
        self.markers: dict[str, type] = {}
        self.marker_objs: dict[tuple, Any] = {}

    def hard_kwargs(self, cls_idx: int, child_idx: int, kwargs: dict) -> dict:
        key = (cls_idx, child_idx)
        if key not in self.shared_defaults:
            self.shared_defaults[key] = self.thaw(kwargs)
        return self.shared_defaults[key]

    def thaw(self, v: Any) -> Any:
        import verif_c14_mod as mod

        if isinstance(v, dict):
            if set(v) == {"$type"}:
                how, j = v["$type"]
                return {"class": mod.CLASSES[j], "ref": f"verif_c14_mod:K{j}", "entrypoint": f"ep{j}"}[how]
            return {k: self.thaw(x) for k, x in v.items()}
        if isinstance(v, list):
            return [self.thaw(x) for x in v]
        return v

    def marker_type(self, path: str) -> type:
        if path not in self.markers:
            self.markers[path] = type("M_" + path.replace(".", "_").replace("/", "_"), (), {})
        return self.markers[path]

    def marker(self, path: str, pub: dict) -> Any:
        o = self.marker_type(path)()
        self.marker_objs[(path, pub["phase"], pub["name"])] = o
        return o

    def fingerprint(self) -> list:
        fp = []
        for cls, kwargs, inst in self.created:
            fp.append((self.instance_paths.get(id(inst), "?"), cls.IDX, _canon(kwargs)))
        return sorted(fp, key=lambda x: (x[0], x[1], repr(x[2])))


def _canon(v: Any) -> Any:
    """Comparable, order-insensitive form of a kwargs structure (classes by name)."""
    if isinstance(v, dict):
        return tuple(sorted((k, _canon(x)) for k, x in v.items()))
    if isinstance(v, list):
        return ("list", tuple(_canon(x) for x in v))
    if isinstance(v, type):
        return ("class", v.__name__)
    return (type(v).__name__, v)


def run_case(case: dict, prop: str) -> Outcome:
    import verif_c14_mod as mod
    from asphalt.core._component import component_types

    out = Outcome()

    def disc(bucket: str, msg: str) -> None:
        out.add("config", "config:" + bucket, msg)

    exp = expected_tree(case)
    shared: dict = {}
    run1, run2, run3 = Run(case, shared), Run(case, shared), Run(case, shared)
    cfg = run1.thaw(case["ext"])
    cfg_arg = None if case.get("none_config") else cfg
    before = copy.deepcopy(cfg)
    root_t = run1.thaw({"$type": [case["root_how"], case["root"]]})
    state: dict[str, Any] = {}
    harness: list[BaseException] = []

    async def main() -> None:
        from asphalt.core import Context, start_component

        for k, run in enumerate((run1, run2, run3)):
            mod.CURRENT = run
            # entry points are resolved through the real importlib.metadata machinery; only the
            # container's cache is reset so that every run resolves them again
            component_types._resolved.clear()
            try:
                async with Context() as ctx:
                    try:
                        # third start: no external configuration at all (the hard-coded tree)
                        comp = await start_component(root_t, cfg_arg if k < 2 else None, timeout=None)
                    except Exception as exc:
                        for leaf in flatten_exc(exc):
                            c = leaf.__cause__ if leaf.__cause__ is not None else leaf
                            # (a RecursionError means asphalt keeps instantiating components: its frames
                            # merely end in harness code)
                            if isinstance(c, HarnessError) or (innermost_is_harness(c) and not isinstance(c, RecursionError)):
                                harness.append(c)
                        state[f"error{k}"] = exc
                        continue
                    state[f"comp{k}"] = comp
                    views = {}
                    for path, mt in run.markers.items():
                        views[path] = dict(ctx.get_resources(mt))
                    state[f"views{k}"] = views
            finally:
                mod.CURRENT = None
            if k == 0:
                state["cfg_after_first"] = copy.deepcopy(cfg)

    try:
        run_virtual(case["backend"], main, sched_seed=case.get("sched_seed", 0))
    except Deadlock as exc:
        disc("deadlock", f"start_component deadlocked: {exc}")
        return out
    if harness:
        raise HarnessError(f"harness exception inside the run: {short_exc(harness[0])}") from harness[0]

    if "error0" in state:
        disc("start-raised:" + type(state["error0"]).__name__, f"start_component raised {short_exc(state['error0'])} "
             f"(cause {getattr(state['error0'], '__cause__', None)!r}) for a valid configuration")
    else:
        # ---- the tree: paths, classes, constructor kwargs -----------------------------------
        got = run1.fingerprint()
        want = sorted([(e["path"], e["cls"], _canon(run1.thaw(e["kwargs"]))) for e in exp], key=lambda x: (x[0], x[1], repr(x[2])))
        if got != want:
            gp, wp = {(p, c) for p, c, _ in got}, {(p, c) for p, c, _ in want}
            if gp != wp:
                missing, extra = sorted(wp - gp), sorted(gp - wp)
                cfg_only = any(e["path"] == p for p, _ in missing for e in exp)
                b = "tree-differs"
                if missing and not extra:
                    b = "components-missing"
                elif {p for p, _ in missing} == {p for p, _ in extra}:
                    b = "wrong-class"
                disc(b, f"component tree (path, class): missing {missing}, unexpected {extra}")
                del cfg_only
            else:
                for g_, w_ in zip(got, want):
                    if g_ != w_:
                        gk, wk = dict(g_[2]), dict(w_[2])
                        only_hard = False
                        b = "kwargs-differ"
                        # direction of the error: did hard-coded values win over external ones?
                        node = [e for e in exp if e["path"] == g_[0]][0]
                        del node, only_hard
                        extra_keys = set(gk) - set(wk)
                        if extra_keys & {"type", "components"}:
                            b = "reserved-keys-passed"
                        disc(b, f"component {g_[0]!r} (K{g_[1]}) was constructed with {dict(gk)!r}, expected {dict(wk)!r}")
                        break
        # ---- published resources: default-name remapping ------------------------------------
        views = state.get("views0", {})
        for e in exp:
            spec = case["classes"][e["cls"]]
            default_name = e["alias"].split("/", 1)[1] if "/" in e["alias"] else "default"
            want_names = {}
            for pub in spec["publish"]:
                eff = default_name if (pub["name"] == "default" and pub["phase"] == "start") else pub["name"]
                want_names[eff] = (e["path"], pub["phase"], pub["name"])
            got_names = views.get(e["path"], {})
            if set(got_names) != set(want_names):
                kind = "remap"
                if any(p["phase"] == "prepare" and p["name"] == "default" for p in spec["publish"]) and "default" not in got_names:
                    kind = "remap-in-prepare"
                elif any(p["name"] != "default" for p in spec["publish"]) and not all(p["name"] in got_names for p in spec["publish"] if p["name"] != "default"):
                    kind = "explicit-name-changed"
                disc(f"resource-names:{kind}", f"component {e['path']!r} (alias {e['alias']!r}) publishes {spec['publish']}; resources found under names "
                     f"{sorted(got_names)}, expected {sorted(want_names)}")
                break
        if state.get("comp0") is not None and run1.created and state["comp0"] is not run1.created[0][2]:
            pass  # (which instance is returned is C05's business)
        # ---- purity and reuse --------------------------------------------------------------------
        if _canon(state["cfg_after_first"]) != _canon(before):
            disc("config-mutated", f"start_component modified the configuration it was given: before {before!r}, after {state['cfg_after_first']!r}")
        elif "error1" in state:
            disc("second-start-raised", f"a second start_component with the same configuration object raised {short_exc(state['error1'])}")
        elif run2.fingerprint() != got:
            disc("second-start-differs", f"a second start_component with the same configuration object built another tree: "
                 f"{[(p, c) for p, c, _ in run2.fingerprint()]} vs {[(p, c) for p, c, _ in got]}")
        elif "error2" in state:
            disc("start-raised:" + type(state["error2"]).__name__, f"start_component without external configuration raised {short_exc(state['error2'])}")
        else:
            # equal configurations yield equal trees: after a start WITH overrides, a start WITHOUT
            # any must still build the purely hard-coded tree (defaults are shared objects)
            plain = expected_tree(dict(case, ext={}))
            want3 = sorted([(e["path"], e["cls"], _canon(run1.thaw(e["kwargs"]))) for e in plain], key=lambda x: (x[0], x[1], repr(x[2])))
            if run3.fingerprint() != want3:
                disc("defaults-polluted", f"after a start with external overrides, a start without any built {run3.fingerprint()!r}, "
                     f"expected the hard-coded tree {want3!r}")

    depth = max(e["path"].count(".") + (1 if e["path"] else 0) for e in exp)
    both_dicts = _has_dict_collision(case)
    cfg_only_nested = _has_config_only_with_components(case)
    labs = {case["backend"], f"depth={depth}", f"components={min(len(exp), 8)}", "root=" + case["root_how"]}
    if both_dicts:
        labs.add("dict-on-both-sides")
    if cfg_only_nested:
        labs.add("config-only-child-with-components")
    if any("/" in e["alias"] for e in exp):
        labs.add("alias-with-name")
    if any(e["alias"].startswith("ep") for e in exp):
        labs.add("type-from-alias")
    out.labels = sorted(labs)
    out.nontrivial = (depth >= 2 and both_dicts) or cfg_only_nested
    out.trace = {"expected": [(e["path"], e["cls"]) for e in exp], "got": [(p, c) for p, c, _ in run1.fingerprint()]}
    return out


def _has_dict_collision(case: dict) -> bool:
    def walk(i: int, comps: dict) -> bool:
        for ch in case["classes"][i]["children"]:
            ext = comps.get(ch["alias"])
            if isinstance(ext, dict):
                if any(isinstance(v, dict) and isinstance(ext.get(k), dict) for k, v in ch["kwargs"].items()):
                    return True
                if walk(resolve_type(ext.get("type") or ({"$type": [ch["type"], ch["cls"]]} if ch["type"] != "omitted" else None), ch["alias"]),
                        ext.get("components") or {}):
                    return True
        return False
    return walk(case["root"], case["ext"].get("components") or {})


def _has_config_only_with_components(case: dict) -> bool:
    def walk(i: int, comps: dict) -> bool:
        hard = {c["alias"]: c for c in case["classes"][i]["children"]}
        for a, ext in comps.items():
            if a not in hard and isinstance(ext, dict) and ext.get("components"):
                return True
            if isinstance(ext, dict) and ext.get("components"):
                t = ext.get("type")
                if t is None and a in hard:
                    t = {"$type": [hard[a]["type"], hard[a]["cls"]]} if hard[a]["type"] != "omitted" else None
                if walk(resolve_type(t, a), ext["components"]):
                    return True
        return False
    return walk(case["root"], case["ext"].get("components") or {})


def shrink_candidates(case: dict):
    # drop parts of the external configuration
    def paths(cfg: Any, prefix: tuple = ()):
        if isinstance(cfg, dict) and "$type" not in cfg:
            for k, v in cfg.items():
                yield prefix + (k,)
                yield from paths(v, prefix + (k,))

    for p in list(paths(case["ext"])):
        c = copy.deepcopy(case)
        cur = c["ext"]
        for k in p[:-1]:
            cur = cur[k]
        del cur[p[-1]]
        yield c
    for i, cl in enumerate(case["classes"]):
        for k in range(len(cl["children"])):
            c = copy.deepcopy(case)
            del c["classes"][i]["children"][k]
            yield c
        for k in range(len(cl["publish"])):
            c = copy.deepcopy(case)
            del c["classes"][i]["publish"][k]
            yield c
        for k, ch in enumerate(cl["children"]):
            if ch["kwargs"]:
                c = copy.deepcopy(case)
                c["classes"][i]["children"][k]["kwargs"] = {}
                yield c
    for key, val in (("backend", "asyncio"), ("sched_seed", 0), ("root_how", "class")):
        if case.get(key) != val:
            c = copy.deepcopy(case)
            c[key] = val
            yield c
