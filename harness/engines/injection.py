"""C19 - @inject is equivalent to explicit lookups in the current context.

case = {backend, sched_seed, is_async, method, block: None|foreign|inner, negative: None|posonly|noannot|uncalled,
        params: [{name, kind: pos|kwonly, has_default}], args: {...},
        injected: [{name, t, rname, annot: plain|optional|pep604|str|str_optional|str_local, state: static|factory|async_factory|inherited|missing}],
        call: same|nested|task|none}

Differential oracle: the generated function is compiled twice - decorated with @inject and
undecorated.  From identical, freshly built context histories the decorated function is
called, and the undecorated one is called with the values of explicit get_resource /
get_resource_nowait lookups made in parameter order.  Outcomes must agree.

Absolute oracle (model_result): the decorated call's outcome predicted from the case alone - which
published object each parameter gets, None for an optional one when nothing matches, ResourceNotFound
otherwise - so that a defect which the decorated call and the explicit lookups share is still seen.
"""

from __future__ import annotations

import copy
import warnings
from typing import Any, Optional, Union

import anyio
from hypothesis import strategies as st

from harness.core import HarnessError, Outcome, flatten_exc, innermost_is_harness, short_exc
from harness.gen import BACKEND, SEED, D
from harness.vloop import Deadlock, run_virtual


class T0:
    def __init__(self, tag: Any) -> None:
        self.tag = tag

    def __len__(self) -> int:  # an (empty) container-like resource: its truth value is False
        return 0


class T1:
    def __init__(self, tag: Any) -> None:
        self.tag = tag

    def __bool__(self) -> bool:  # a flag-like resource that is currently off
        return "generated" in str(self.tag) or "late" in str(self.tag)


class T2(T0):
    pass


class LateT:
    """Referred to by name in an annotation before that name is bound in the function's module."""

    def __init__(self, tag: Any) -> None:
        self.tag = tag


TYPES = [T0, T1, T2]
ANNOTS = ["plain", "optional", "pep604", "str", "str_optional", "str_local", "none_first", "union_none_first", "str_none_first",
          "optional_fwd", "union_fwd", "union_none_first_fwd", "str_late"]
STATES = ["static", "factory", "async_factory", "inherited", "missing", "side_factory", "side_static"]
# published only in a context that is NOT on the caller's chain (a child entered and left before the call): nothing matches
MISSING_LIKE = ("missing", "side_factory", "side_static")


@st.composite
def cases(draw: Any, tier: str) -> dict:
    d = D(draw)
    negative = d.weighted([(None, 88), ("posonly", 4), ("noannot", 4), ("uncalled", 4)])
    params = []
    for i in range(d.int(0, 3)):
        params.append({"name": f"p{i}", "kind": d.pick(["pos", "pos", "kwonly"]), "has_default": d.pct(40)})
    # positional parameters with defaults must come after those without
    pos = [p for p in params if p["kind"] == "pos"]
    pos.sort(key=lambda p: p["has_default"])
    params = pos + [p for p in params if p["kind"] == "kwonly"]
    injected = []
    used = set()
    for i in range(d.int(1, 3)):
        t, rname = d.int(0, 2), d.pick(["default", "a", "b"])
        if (t, rname) in used:
            continue
        used.add((t, rname))
        annot = d.pick(ANNOTS)
        injected.append({"name": f"r{i}", "t": t, "rname": rname, "annot": annot,
                         "state": d.weighted([("static", 28), ("factory", 16), ("async_factory", 12), ("inherited", 16), ("missing", 16),
                                             ("side_factory", 7), ("side_static", 5)]),
                         "kwonly": d.pct(60)})
    if len(injected) >= 2 and negative is None and d.pct(15):
        # one resource() marker object reused as the default of two parameters of different types
        if injected[0]["t"] != injected[1]["t"] and not any(
                (i["t"], i["rname"]) == (injected[1]["t"], injected[0]["rname"]) for i in injected[2:]):
            injected[1]["rname"] = injected[0]["rname"]
            injected[1]["share_marker_with"] = 0
    # at most one function-local type per case keeps the source simple
    seen_local = False
    for inj in injected:
        if inj["annot"] in ("str_local", "str_late"):
            if seen_local:
                inj["annot"] = "str"
            seen_local = True
    args = {p["name"]: d.int(0, 9) for p in params if not p["has_default"] or d.pct(50)}
    method = d.pct(30)
    if method:
        # a method of a function-local class cannot refer to another function-local class by name
        # (typing.get_type_hints cannot either): not generated
        for inj in injected:
            if inj["annot"] == "str_local":
                inj["annot"] = "str"
    call = d.weighted([("same", 38), ("nested", 22), ("task", 16), ("none", 8), ("component", 16)])
    if call in ("none", "component") or negative:
        for inj in injected:
            if inj["annot"] == "str_late":
                inj["annot"] = "str"
    return {"backend": draw(BACKEND), "sched_seed": draw(SEED), "is_async": d.bool(), "method": method, "negative": negative,
            "params": params, "args": args, "injected": injected,
            "call": call, "second_call": d.pct(35),
            "future_annotations": d.pct(35),
            # before the call another context is entered and left again: "foreign" = made with an explicit parent
            # that is not the current context, "inner" = an ordinary nested one
            "block": d.weighted([(None, 70), ("foreign", 18), ("inner", 12)]),
            # scale: an async factory that takes long; a task that has already made many failing injected calls
            "slow_factory": d.weighted([(0, 94), (35, 3), (100, 3)]), "prior_failures": d.weighted([(0, 94), (16, 2), (20, 2), (40, 2)])}


def strategy(prop: str, tier: str) -> st.SearchStrategy:
    return cases(tier)


# ------------------------------------------------------------------------------------
# source generation
# ------------------------------------------------------------------------------------


def _annot(inj: dict) -> str:
    t = f"T{inj['t']}"
    a = inj["annot"]
    if a == "plain":
        return t
    if a == "optional":
        return f"Optional[{t}]"
    if a == "pep604":
        return f"{t} | None"
    if a == "str":
        return f'"{t}"'
    if a == "str_optional":
        return f'"Optional[{t}]"'
    if a == "none_first":
        return f"None | {t}"
    if a == "union_none_first":
        return f"Union[None, {t}]"
    if a == "str_none_first":
        return f'"None | {t}"'
    if a == "optional_fwd":  # a forward reference nested inside a typing construct (not a whole-string annotation)
        return f'Optional["{t}"]'
    if a == "union_fwd":
        return f'Union["{t}", None]'
    if a == "union_none_first_fwd":
        return f'Union[None, "{t}"]'
    if a == "str_late":
        return '"LateT"'
    return '"LocalT"'


def is_optional(inj: dict) -> bool:
    return inj["annot"] in ("optional", "pep604", "str_optional", "none_first", "union_none_first", "str_none_first",
                            "optional_fwd", "union_fwd", "union_none_first_fwd")


def source(case: dict, decorated: bool) -> str:
    neg = case["negative"]
    pos_params = []
    kw_params = []
    for p in case["params"]:
        s = p["name"] + (" = -1" if p["has_default"] else "")
        (pos_params if p["kind"] == "pos" else kw_params).append(s)
    inj_pos, inj_kw = [], []
    shared = any("share_marker_with" in i for i in case["injected"])
    for k, inj in enumerate(case["injected"]):
        marker = f'resource("{inj["rname"]}")' if inj["rname"] != "default" else "resource()"
        if shared and (k == 0 or inj.get("share_marker_with") == 0):
            marker = "shared_marker"
        ann = f": {_annot(inj)}"
        if neg == "noannot" and k == 0:
            ann = ""
        if neg == "uncalled" and k == 0:
            marker = "resource"
        s = f"{inj['name']}{ann} = {marker}"
        (inj_kw if inj["kwonly"] and not (neg == "posonly" and k == 0) else inj_pos).append(s)
    # injected positional-or-keyword parameters have defaults: they follow the ordinary ones, which then
    # all need defaults or must precede them
    sig = []
    if case["method"]:
        sig.append("self")
    nodef = [s for s in pos_params if "=" not in s]
    withdef = [s for s in pos_params if "=" in s]
    if neg == "posonly":
        sig += nodef + [inj_pos[0], "/"] + withdef + inj_pos[1:]
    else:
        sig += nodef + withdef + inj_pos
    if kw_params or inj_kw:
        sig.append("*")
        sig += kw_params + inj_kw
    names = [p["name"] for p in case["params"]] + [i["name"] for i in case["injected"]]
    ret = "(" + ", ".join(names) + ("," if len(names) == 1 else "") + ")"
    defn = ("async def" if case["is_async"] else "def") + f" func({', '.join(sig)}):"
    deco = "@inject\n" if decorated else ""
    body = f"marker()\nreturn {ret}"
    lines = ["def make(inject, resource, marker, T0, T1, T2, Optional, Union):", "    class LocalT:", "        def __init__(self, tag):",
             "            self.tag = tag"]
    if shared:
        rn = case["injected"][0]["rname"]
        lines.append("    shared_marker = " + (f'resource("{rn}")' if rn != "default" else "resource()"))
    if case["method"]:
        lines.append("    class Holder:")
        for ln in (deco + defn).splitlines():
            lines.append("        " + ln)
        for ln in body.splitlines():
            lines.append("            " + ln)
        lines.append("    return Holder().func, LocalT")
    else:
        for ln in (deco + defn).splitlines():
            lines.append("    " + ln)
        for ln in body.splitlines():
            lines.append("        " + ln)
        lines.append("    return func, LocalT")
    head = "from __future__ import annotations\n" if case.get("future_annotations") else ""
    return head + "\n".join(lines) + "\n"


def compile_fn(case: dict, decorated: bool, marker: Any) -> tuple:
    from asphalt.core import inject, resource

    src = source(case, decorated)
    ns: dict[str, Any] = {"T0": T0, "T1": T1, "T2": T2, "Optional": Optional, "Union": Union}
    # dont_inherit: this module's own `from __future__ import annotations` must not leak into the
    # generated code (the case decides whether its annotations are evaluated or kept as strings)
    exec(compile(src, "<generated>", "exec", dont_inherit=True), ns)
    return (*ns["make"](inject, resource, marker, T0, T1, T2, Optional, Union), ns)


# ------------------------------------------------------------------------------------
# one run of the history
# ------------------------------------------------------------------------------------


class OneRun:
    def __init__(self, case: dict, decorated: bool) -> None:
        self.case = case
        self.decorated = decorated
        self.body_ran = 0
        self.fcalls: dict[str, int] = {}
        self.events: list[tuple] = []
        self.result: Any = None
        self.harness_exc: BaseException | None = None
        self.prior_problem: str | None = None
        self.labels: dict[int, str] = {}

    def label(self, obj: Any) -> Any:
        if obj is None or isinstance(obj, int):
            return obj
        return self.labels.get(id(obj), f"?{type(obj).__name__}")

    async def main(self) -> None:
        from asphalt.core import Context, ResourceEvent, get_resource, get_resource_nowait

        case = self.case

        def marker() -> None:
            self.body_ran += 1

        compiled: list = []

        def ensure_compiled() -> None:
            # the function is defined (and decorated) while some context is current - for nested /
            # task calls that is NOT the context it is later called in
            if not compiled:
                compiled.extend(compile_fn(case, self.decorated, marker))

        if case["call"] == "none":
            ensure_compiled()

        def func(*a: Any, **k: Any) -> Any:
            return compiled[0](*a, **k)

        def typ(inj: dict) -> type:
            LocalT = compiled[1]
            if inj["annot"] == "str_late":
                return LateT
            return LocalT if inj["annot"] == "str_local" else TYPES[inj["t"]]

        keep = []

        def new(inj: dict, how: str) -> Any:
            o = typ(inj)((inj["name"], how))
            self.labels[id(o)] = f"{inj['name']}:{how}"
            keep.append(o)
            return o

        def populate(ctx: Any, where: str) -> None:
            for inj in case["injected"]:
                st_ = inj["state"]
                T = typ(inj)
                if st_ == "static" and where == "call":
                    ctx.add_resource(new(inj, "static"), inj["rname"], types=[T])
                elif st_ == "inherited" and where == "parent" and case["call"] != "same":
                    ctx.add_resource(new(inj, "inherited"), inj["rname"], types=[T])
                elif st_ == "inherited" and where == "call" and case["call"] == "same":
                    ctx.add_resource(new(inj, "inherited"), inj["rname"], types=[T])
                elif st_ in ("factory", "async_factory") and where == ("parent" if case["call"] != "same" else "call"):
                    key = inj["name"]

                    if st_ == "factory":
                        def fac(inj: dict = inj, key: str = key) -> Any:
                            self.fcalls[key] = self.fcalls.get(key, 0) + 1
                            return new(inj, "generated")
                    else:
                        async def fac(inj: dict = inj, key: str = key) -> Any:  # type: ignore[misc]
                            self.fcalls[key] = self.fcalls.get(key, 0) + 1
                            await anyio.lowlevel.checkpoint()
                            if case.get("slow_factory"):
                                await anyio.sleep(case["slow_factory"])  # (virtual seconds: a factory may take long)
                            return new(inj, "generated")
                    ctx.add_resource_factory(fac, inj["rname"], types=[T])

        async def side_population() -> None:
            if not any(i["state"] in ("side_factory", "side_static") for i in case["injected"]):
                return
            async with Context() as side:
                for inj in case["injected"]:
                    if inj["state"] == "side_static":
                        side.add_resource(new(inj, "side"), inj["rname"], types=[typ(inj)])
                    elif inj["state"] == "side_factory":
                        def fac(inj: dict = inj) -> Any:
                            self.fcalls[inj["name"]] = self.fcalls.get(inj["name"], 0) + 1
                            return new(inj, "side-generated")
                        side.add_resource_factory(fac, inj["rname"], types=[typ(inj)])

        async def block(outer: Any) -> None:
            if case.get("block") == "foreign":
                async with Context(outer):
                    await anyio.lowlevel.checkpoint()
            elif case.get("block") == "inner":
                async with Context():
                    await anyio.lowlevel.checkpoint()

        async def call() -> Any:
            args = [case["args"][p["name"]] for p in case["params"] if p["kind"] == "pos" and p["name"] in case["args"]]
            # positional parameters without a value must be the trailing ones
            kwargs = {p["name"]: case["args"][p["name"]] for p in case["params"] if p["kind"] == "kwonly" and p["name"] in case["args"]}
            pos_names = [p["name"] for p in case["params"] if p["kind"] == "pos"]
            given = [n in case["args"] for n in pos_names]
            if any(not g for g in given[: sum(given)]):
                # a gap: pass the remaining positional values by keyword instead
                args = []
                for n in pos_names:
                    if n in case["args"]:
                        kwargs[n] = case["args"][n]
            try:
                if not self.decorated:
                    # explicit lookups in parameter (signature) order
                    ordered = [i for i in case["injected"] if not i["kwonly"]] + [i for i in case["injected"] if i["kwonly"]]
                    for inj in ordered:
                        T = typ(inj)
                        if case["is_async"]:
                            kwargs[inj["name"]] = await get_resource(T, inj["rname"], optional=is_optional(inj))
                        else:
                            kwargs[inj["name"]] = get_resource_nowait(T, inj["rname"], optional=is_optional(inj))
                res = func(*args, **kwargs)
                if case["is_async"]:
                    res = await res
                return ("ok", tuple(self.label(x) for x in res))
            except Exception as exc:
                if isinstance(exc, HarnessError) or (innermost_is_harness(exc) and type(exc).__module__ == "builtins"
                                                     and not isinstance(exc, TypeError)):
                    self.harness_exc = exc
                return ("raise", type(exc).__name__)

        async def in_ctx(ctx: Any, outer: Any) -> None:
            cm = ctx.resource_added.stream_events(max_queue_size=1000)
            it = await cm.__aenter__()
            populate(ctx, "call")
            await side_population()
            await block(outer)
            if case.get("prior_failures"):
                # the task has a history of injected calls that failed for want of a resource: each of them raises
                # ResourceNotFound, and none of them changes what the next call gets
                from asphalt.core import ResourceNotFound as _RNF
                from asphalt.core import inject as _inject
                from asphalt.core import resource as _resource

                def sync_probe(*, r=_resource("no_such_resource")):  # type: ignore[no-untyped-def]
                    return r

                sync_probe.__annotations__ = {"r": T1}

                async def async_probe(*, r=_resource("no_such_resource")):  # type: ignore[no-untyped-def]
                    return r

                async_probe.__annotations__ = {"r": T1}
                sp, ap = _inject(sync_probe), _inject(async_probe)
                for k in range(case["prior_failures"]):
                    try:
                        if self.decorated:
                            await ap() if case["is_async"] else sp()
                        elif case["is_async"]:
                            await get_resource(T1, "no_such_resource")
                        else:
                            get_resource_nowait(T1, "no_such_resource")
                    except _RNF:
                        continue
                    except Exception as exc:
                        self.prior_problem = f"failing call #{k + 1} raised {short_exc(exc)} instead of ResourceNotFound"
                        break
                    else:
                        self.prior_problem = f"failing call #{k + 1} did not raise"
                        break
            if any(i["annot"] == "str_late" for i in case["injected"]):
                # the annotation names a class that the function's module does not define yet: a call
                # made now cannot resolve it (whatever it does is not judged) - one made after the
                # name has been bound must
                if self.decorated:
                    self.early = await call()
                compiled[2]["LateT"] = LateT
            if case["call"] == "task":
                async def child() -> None:
                    self.result = await call()
                async with anyio.create_task_group() as tg:
                    tg.start_soon(child)
            else:
                self.result = await call()
            if case.get("second_call"):
                # what was missing is published now; a second call must see the new state
                for inj in case["injected"]:
                    if inj["state"] in MISSING_LIKE:
                        ctx.add_resource(new(inj, "late"), inj["rname"], types=[typ(inj)])
                self.result = (self.result, await call())
            sentinel = ResourceEvent((), "__s__", None, False)
            ctx.resource_added.dispatch(sentinel)
            while True:
                ev = await it.__anext__()
                if ev is sentinel:
                    break
                self.events.append((tuple(sorted(t.__name__ for t in ev.resource_types)), ev.resource_name, bool(ev.is_factory)))
            await cm.__aexit__(None, None, None)

        if case["call"] == "none":
            self.result = await call()
            return
        if case["call"] == "component":
            # the function is called from a component's start() while a sibling publishes, one tick
            # later, what is still missing: explicit get_resource() calls WAIT there
            from asphalt.core import Component, add_resource, start_component

            run = self
            async with Context() as parent:
                ensure_compiled()
                cm = parent.resource_added.stream_events(max_queue_size=1000)
                it = await cm.__aenter__()
                populate(parent, "parent")
                populate(parent, "call")
                await side_population()

                class Caller(Component):
                    async def start(self) -> None:
                        run.result = await call()

                class Publisher(Component):
                    async def start(self) -> None:
                        await anyio.sleep(1)
                        for inj in case["injected"]:
                            if inj["state"] in MISSING_LIKE:
                                add_resource(new(inj, "late"), inj["rname"], types=[typ(inj)])

                class Root(Component):
                    def __init__(self) -> None:
                        self.add_component("caller", Caller)
                        self.add_component("publisher", Publisher)

                try:
                    await start_component(Root, timeout=50)
                except Exception as exc:
                    if self.result is None:
                        self.result = ("raise", "startup:" + type(exc).__name__)
                sentinel = ResourceEvent((), "__s__", None, False)
                parent.resource_added.dispatch(sentinel)
                while True:
                    ev = await it.__anext__()
                    if ev is sentinel:
                        break
                    self.events.append((tuple(sorted(t.__name__ for t in ev.resource_types)), ev.resource_name, bool(ev.is_factory)))
                await cm.__aexit__(None, None, None)
            return
        async with Context() as parent:
            ensure_compiled()
            populate(parent, "parent")
            if case["call"] == "same":
                await in_ctx(parent, parent)
            else:
                async with Context() as child_ctx:
                    await in_ctx(child_ctx, parent)


def model_result(case: dict) -> Any:
    """What the statement of C19 (and of the lookup API it refers to) says the decorated call gives;
    written from the case alone.  None when the case is outside the model (component start-up)."""
    if case["call"] == "component":
        return None
    if case["call"] == "none":
        return ("raise", "NoCurrentContext")

    def one(second: bool) -> Any:
        ordered = [i for i in case["injected"] if not i["kwonly"]] + [i for i in case["injected"] if i["kwonly"]]
        vals: dict[str, Any] = {}
        for inj in ordered:
            st_ = inj["state"]
            if st_ in MISSING_LIKE:
                if second:
                    vals[inj["name"]] = inj["name"] + ":late"
                elif is_optional(inj):
                    vals[inj["name"]] = None
                else:
                    return ("raise", "ResourceNotFound")
            elif st_ in ("static", "inherited"):
                vals[inj["name"]] = f"{inj['name']}:{st_}"
            elif st_ == "factory" or case["is_async"]:
                vals[inj["name"]] = inj["name"] + ":generated"
            else:
                return ("raise", "AsyncResourceError")
        plain = [case["args"].get(p["name"], -1) for p in case["params"]]
        return ("ok", tuple(plain + [vals[i["name"]] for i in case["injected"]]))

    return (one(False), one(True)) if case.get("second_call") else one(False)


def run_case(case: dict, prop: str) -> Outcome:
    out = Outcome()

    def disc(bucket: str, msg: str) -> None:
        out.add("inject", "inject:" + bucket, msg)

    labs = {case["backend"], "async" if case["is_async"] else "sync", "call=" + case["call"]}
    for inj in case["injected"]:
        labs.add("state=" + inj["state"])
        labs.add("annot=" + inj["annot"])
    if case.get("block"):
        labs.add("block=" + case["block"])
    if case.get("slow_factory"):
        labs.add("slow-factory")
    if case.get("prior_failures"):
        labs.add("prior-failures")
    if case["negative"]:
        labs.add("negative=" + case["negative"])
        try:
            with warnings.catch_warnings():
                warnings.simplefilter("ignore")
                compile_fn(case, True, lambda: None)
        except TypeError:
            pass
        except Exception as exc:
            disc("negative-other-exception", f"{case['negative']}: decoration raised {short_exc(exc)}, expected TypeError\n{source(case, True)}")
        else:
            disc("negative-accepted:" + case["negative"], f"a {case['negative']} resource marker was accepted by @inject:\n{source(case, True)}")
        out.labels = sorted(labs)
        out.nontrivial = True
        out.trace = {"source": source(case, True)}
        return out

    runs = []
    for decorated in (True, False):
        r = OneRun(case, decorated)
        try:
            run_virtual(case["backend"], r.main, sched_seed=case.get("sched_seed", 0))
        except Deadlock as exc:
            disc("deadlock", f"{'decorated' if decorated else 'explicit'} run deadlocked: {exc}")
            out.labels = sorted(labs)
            return out
        except HarnessError:
            raise
        except BaseException as exc:
            if any(innermost_is_harness(l) for l in flatten_exc(exc)):
                raise
            disc("run-raised:" + type(exc).__name__, f"{'decorated' if decorated else 'explicit'} run raised {short_exc(exc)}\n{source(case, decorated)}")
            out.labels = sorted(labs)
            return out
        if r.harness_exc is not None:
            raise HarnessError(f"harness exception inside the run: {short_exc(r.harness_exc)}\n{source(case, decorated)}") from r.harness_exc
        runs.append(r)
    dec, exp = runs
    src = source(case, True)
    if dec.prior_problem:
        disc("prior-failures", f"a task makes {case['prior_failures']} injected calls for a resource that does not exist: {dec.prior_problem}")
    if dec.result != exp.result:
        kind = "result"
        if exp.result[0] == "raise" and dec.result[0] == "ok":
            kind = "missing-resource-not-raised" if exp.result[1] == "ResourceNotFound" else "error-not-raised"
        elif exp.result[0] == "ok" and dec.result[0] == "raise":
            kind = "spurious-" + dec.result[1]
        elif exp.result[0] == "raise":
            kind = "different-exception"
        disc(kind, f"decorated call gave {dec.result!r}, explicit lookups + undecorated call gave {exp.result!r}\n{src}")
    elif model_result(case) is not None and dec.result != model_result(case):
        disc("model-result", f"decorated call gave {dec.result!r} (and so did explicit lookups); from the published resources "
             f"{[(i['name'], i['state'], i['annot']) for i in case['injected']]} (call={case['call']}, block={case.get('block')}) "
             f"it must give {model_result(case)!r}\n{src}")
    elif dec.body_ran != exp.body_ran:
        disc("body-ran", f"function body ran {dec.body_ran} times with @inject, {exp.body_ran} times with explicit lookups\n{src}")
    elif dec.fcalls != exp.fcalls:
        disc("factory-calls", f"factory calls with @inject {dec.fcalls}, with explicit lookups {exp.fcalls}\n{src}")
    elif dec.events != exp.events:
        disc("events", f"resource_added events with @inject {dec.events}, with explicit lookups {exp.events}\n{src}")
    out.labels = sorted(labs)
    names = {i["rname"] for i in case["injected"]}
    out.nontrivial = (len(case["injected"]) >= 2 and len(names) >= 2) or any(is_optional(i) and i["state"] == "missing" for i in case["injected"]) or any(
        i["state"] in ("factory", "async_factory", "inherited") for i in case["injected"])
    out.trace = {"source": src, "decorated": repr(dec.result), "explicit": repr(exp.result), "fcalls": dec.fcalls}
    return out


def shrink_candidates(case: dict):
    for i in range(len(case["params"])):
        c = copy.deepcopy(case)
        name = c["params"][i]["name"]
        del c["params"][i]
        c["args"].pop(name, None)
        yield c
    if len(case["injected"]) > 1:
        for i in range(len(case["injected"])):
            c = copy.deepcopy(case)
            del c["injected"][i]
            yield c
    for key, val in (("method", False), ("call", "same"), ("backend", "asyncio"), ("sched_seed", 0), ("block", None), ("second_call", False), ("slow_factory", 0), ("prior_failures", 0)):
        if case.get(key) != val:
            c = copy.deepcopy(case)
            c[key] = val
            yield c
    for i, inj in enumerate(case["injected"]):
        for field, val in (("annot", "plain"), ("rname", "default"), ("kwonly", True)):
            if inj[field] != val:
                c = copy.deepcopy(case)
                c["injected"][i][field] = val
                yield c
