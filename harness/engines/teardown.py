"""E1 - teardown engine: C01 (every callback once, LIFO, one at a time).

case = {backend, sched_seed, kind: root|nested|component, ambient: bool,
        items: [{"reg": spec} | {"cp": n}], tail: n,
        ending: {"kind": return|raise|cancel, "exc": ..., "at": k}}
spec = {id, route, kind, cps, sleep, pass_exc, raises, raise_when, nested: [spec]}
"""

from __future__ import annotations

import copy
from typing import Any

import anyio
from hypothesis import strategies as st

from harness.core import HarnessError, Outcome, all_groups, flatten_exc, innermost_is_harness, short_exc
from harness.gen import BACKEND, SEED, D
from harness.vloop import Deadlock, checkpoints, run_virtual, vsleep

ROUTES = ["ctx", "module", "resource", "ctxtd_func", "ctxtd_method"]
EXCS = ["VErr", "VBase", "KeyboardInterrupt", "SystemExit", "group"]


class VErr(Exception):
    pass


class VErr2(Exception):
    pass


class VBase(BaseException):
    pass


def make_exc(kind: str, tag: Any) -> BaseException:
    if kind == "VErr":
        return VErr(tag)
    if kind == "VBase":
        return VBase(tag)
    if kind == "KeyboardInterrupt":
        return KeyboardInterrupt(tag)
    if kind == "SystemExit":
        return SystemExit(tag)
    if kind == "group":
        return ExceptionGroup(f"grp{tag}", [VErr((tag, 0)), VErr2((tag, 1))])
    raise HarnessError(kind)


# ------------------------------------------------------------------------------------
# generator
# ------------------------------------------------------------------------------------


def _simple_spec(d: D, ids: list[int], depth: int) -> dict:
    """A cheap callback (for contexts with dozens of them)."""
    sid = ids[0]
    ids[0] += 1
    route = d.weighted([("ctx", 50), ("module", 25), ("resource", 25)])
    kind = d.weighted([("sync", 70), ("async", 30)])
    s: dict[str, Any] = {"id": sid, "route": route, "kind": kind}
    if kind != "sync":
        s["cps"], s["sleep"] = d.int(0, 1), 0
    if route in ("ctx", "module"):
        s["pass_exc"] = d.pct(30)
    if d.pct(6):
        s["raises"] = EXCS[0]
        s["raise_when"] = "before"
    return s


def _spec(d: D, ids: list[int], depth: int, tier: str) -> dict:
    sid = ids[0]
    ids[0] += 1
    route = d.weighted([("ctx", 35), ("module", 20), ("resource", 15), ("ctxtd_func", 15), ("ctxtd_method", 15)])
    if depth > 0:
        # during teardown only direct registration and add_resource are meaningful
        route = d.weighted([("ctx", 50), ("module", 25), ("resource", 25)])
    if route.startswith("ctxtd"):
        kind = "async"
    else:
        kind = d.weighted([("sync", 40), ("async", 35), ("sync_awaitable", 13), ("sync_custom_awaitable", 12)])
    s: dict[str, Any] = {"id": sid, "route": route, "kind": kind}
    if kind != "sync":
        s["cps"] = d.int(0, 2)
        s["sleep"] = d.weighted([(0, 60), (1, 25), (2, 15)])
    if route in ("ctx", "module"):
        s["pass_exc"] = d.bool()
    shape = d.weighted([("function", 64), ("object", 14), ("partial", 12), ("falsy_object", 10)])
    if shape != "function":
        s["shape"] = shape  # a callable object (no __qualname__) / a functools.partial
    if route == "resource" and d.pct(40):
        s["ntypes"] = d.int(2, 3)  # the resource is published under several types
    if d.pct(30):
        s["raises"] = d.pick(EXCS)
        s["raise_when"] = d.pick(["before", "after"])
    if depth < 2 and d.pct(22 if depth == 0 else 12):
        s["nested"] = [_spec(d, ids, depth + 1, tier) for _ in range(d.int(1, 2))]
    return s


@st.composite
def cases(draw: Any, tier: str) -> dict:
    d = D(draw)
    kind = d.weighted([("root", 40), ("nested", 35), ("component", 25)])
    ids = [0]
    n = d.int(0, 8 if tier == "quick" else 14)
    items: list[dict] = []
    large = d.pct(4)
    if large and d.bool():
        # dozens of callbacks on one context ("every teardown callback", not "every one of the first few")
        for _ in range(d.pick([17, 20, 33, 40, 70])):
            items.append({"reg": _simple_spec(d, ids, 0)})
        items.insert(d.int(0, len(items)), {"cp": 1})
        n = 0
    elif large:
        # one callback registers dozens of further ones while the context is being torn down
        for _ in range(d.int(1, 3)):
            items.append({"reg": _simple_spec(d, ids, 0)})
        host = _simple_spec(d, ids, 0)
        host["route"], host["kind"] = "ctx", "sync"
        host.pop("raises", None)
        host["nested"] = [dict(_simple_spec(d, ids, 1), route=d.pick(["ctx", "module", "resource"])) for _ in range(d.pick([33, 40, 64]))]
        items.insert(d.int(0, len(items)), {"reg": host})
        n = 0
    for _ in range(n):
        if d.pct(25):
            items.append({"cp": d.int(1, 2)})
        items.append({"reg": _spec(d, ids, 0, tier)})
    tail = d.int(0, 2)
    ek = d.weighted([("return", 40), ("raise", 35), ("cancel", 25)]) if not large else d.weighted([("return", 30), ("raise", 25), ("cancel", 45)])
    ending: dict[str, Any] = {"kind": ek}
    if ek == "raise":
        ending["exc"] = d.pick(EXCS)
    elif ek == "cancel":
        total = tail + (0 if kind == "component" else sum(i.get("cp", 0) for i in items))
        if kind == "component":
            if tail == 0:
                tail = 1
            ending["at"] = d.int(1, tail)
        else:
            if total == 0:
                tail, total = 1, 1
            ending["at"] = d.int(1, total)
    case = {"backend": draw(BACKEND), "sched_seed": draw(SEED), "kind": kind, "ambient": d.pct(20),
            "items": items, "tail": tail, "ending": ending}
    if kind == "component" and d.pct(40):
        sp = _spec(d, ids, 0, tier)
        sp.update(route="ctxtd_method", kind="async")
        sp.pop("shape", None)
        sp.pop("ntypes", None)
        sp.pop("pass_exc", None)
        case["start_spec"] = sp
    return case


def strategy(prop: str, tier: str) -> st.SearchStrategy:
    return cases(tier)


# ------------------------------------------------------------------------------------
# interpreter
# ------------------------------------------------------------------------------------


class _RT0:
    pass


class _RT1:
    pass


class _RT2:
    pass


class _Awaitable:
    def __init__(self, coro: Any) -> None:
        self.coro = coro

    def __await__(self) -> Any:
        return self.coro.__await__()


class _Cancelled(BaseException):
    """Internal marker: the body was cancelled at the chosen checkpoint."""


class Interp:
    def __init__(self, case: dict, prop: str) -> None:
        self.case = case
        self.prop = prop
        self.out = Outcome()
        self.trace: list[Any] = []
        self.reg_order: list[dict] = []  # specs in observed registration order (top level, before teardown)
        self.raised: list[tuple[int, BaseException]] = []
        self.recv: dict[int, Any] = {}
        self.planned_exc: dict[int, BaseException] = {}
        self.ctx: Any = None
        self.cp_count = 0
        self.scope: Any = None
        self.block_exc: BaseException | None = None
        self.closed_seen_in_cb: list[Any] = []
        self.harness_exc: BaseException | None = None
        self.running: int | None = None
        self.overlap: list[tuple[int, int]] = []
        self.shared_ctf: Any = None

    def disc(self, bucket: str, msg: str) -> None:
        self.out.add("teardown", "teardown:" + bucket, msg)

    # -- callback construction -------------------------------------------------------------
    def behaviour(self, spec: dict):
        """Returns (before, after) callables implementing the callback body around its await."""
        interp = self
        sid = spec["id"]

        def begin(exc_arg: Any, has_arg: bool) -> None:
            if interp.running is not None:
                interp.overlap.append((interp.running, sid))
            interp.running = sid
            interp.trace.append(["begin", sid])
            if has_arg:
                interp.recv[sid] = exc_arg
            interp.closed_seen_in_cb.append(interp.ctx.closed if interp.ctx is not None else None)
            for nested in spec.get("nested", []):
                interp.register(nested, during_teardown=True)
            if spec.get("raises") and spec.get("raise_when") == "before":
                e = make_exc(spec["raises"], sid)
                interp.planned_exc[sid] = e
                raise e

        def after() -> None:
            if spec.get("raises") and spec.get("raise_when") == "after":
                e = make_exc(spec["raises"], sid)
                interp.planned_exc[sid] = e
                raise e

        def end(exc: BaseException | None) -> None:
            interp.trace.append(["end", sid])
            if interp.running == sid:
                interp.running = None
            if exc is not None:
                interp.raised.append((sid, exc))

        return begin, after, end

    def make_callback(self, spec: dict, takes_arg: bool):
        begin, after, end = self.behaviour(spec)
        kind = spec["kind"]
        cps, sl = spec.get("cps", 0), spec.get("sleep", 0)

        async def body_async(exc_arg: Any, has_arg: bool) -> None:
            try:
                begin(exc_arg, has_arg)
                await checkpoints(cps)
                await vsleep(sl)
                after()
            except BaseException as e:
                end(e)
                raise
            else:
                end(None)

        if kind == "sync":
            def cb_sync(*args: Any) -> None:
                try:
                    begin(args[0] if args else None, bool(args))
                    after()
                except BaseException as e:
                    end(e)
                    raise
                else:
                    end(None)

            if takes_arg:
                return lambda exc: cb_sync(exc)
            return lambda: cb_sync()
        if kind == "async":
            if takes_arg:
                async def cb_a(exc: Any) -> None:
                    await body_async(exc, True)
                return cb_a

            async def cb_b() -> None:
                await body_async(None, False)
            return cb_b
        if kind == "sync_awaitable":
            # a plain function returning an awaitable: it has to be awaited before the next callback
            if takes_arg:
                return lambda exc: body_async(exc, True)
            return lambda: body_async(None, False)
        if kind == "sync_custom_awaitable":
            # ... an awaitable that is not a coroutine object (an object with __await__)
            if takes_arg:
                return lambda exc: _Awaitable(body_async(exc, True))
            return lambda: _Awaitable(body_async(None, False))
        raise HarnessError(kind)

    def shaped(self, spec: dict, cb: Any) -> Any:
        """Same behaviour, different kind of callable."""
        import functools
        import inspect

        shape = spec.get("shape")
        if shape == "partial":
            return functools.partial(cb)
        if shape in ("object", "falsy_object"):
            # "falsy_object": a callable whose truth value is False (an empty callable collection)
            extra = {"__len__": lambda self: 0} if shape == "falsy_object" else {}
            if inspect.iscoroutinefunction(cb):
                async def acall(self: Any, *a: Any) -> Any:
                    return await cb(*a)
                return type("AsyncCallable", (), {"__call__": acall, **extra})()

            def call(self: Any, *a: Any) -> Any:
                return cb(*a)
            return type("Callable_", (), {"__call__": call, **extra})()
        return cb

    def register(self, spec: dict, during_teardown: bool = False) -> Any:
        """Register one callback through its route. Returns an awaitable for ctxtd routes."""
        from asphalt.core import add_resource, add_teardown_callback

        make_callback = lambda sp, takes: self.shaped(sp, self.make_callback(sp, takes))  # noqa: E731

        route = spec["route"]
        ctx = self.ctx
        if self.case["kind"] == "component" and not during_teardown and spec["id"] % 3:
            # component code addresses "its" context: the object current_context() gives it
            from asphalt.core import current_context

            ctx = current_context()
        pe = spec.get("pass_exc", False)
        # pass_exception is optional (default False): half of the plain registrations leave it out, some name it
        rest: tuple = (pe,) if pe or spec["id"] % 2 else ()
        kw: dict = {}
        if pe and spec["id"] % 3 == 0:
            rest, kw = (), {"pass_exception": True}
        if route == "ctx":
            ctx.add_teardown_callback(make_callback(spec, pe), *rest, **kw)
        elif route == "module":
            add_teardown_callback(make_callback(spec, pe), *rest, **kw)
        elif route == "resource":
            obj = object()
            types = [_RT0, _RT1, _RT2][: spec["ntypes"]] if spec.get("ntypes") else ()
            if during_teardown or spec["id"] % 2:
                ctx.add_resource(obj, f"r{spec['id']}", types, teardown_callback=make_callback(spec, False))
            else:
                add_resource(obj, f"r{spec['id']}", types, teardown_callback=make_callback(spec, False))
        else:
            raise HarnessError(route)
        if not during_teardown:
            self.reg_order.append(spec)
        self.trace.append(["registered", spec["id"], route])

    async def register_ctxtd(self, spec: dict) -> None:
        from asphalt.core import context_teardown

        interp = self
        if spec["id"] % 3 != 0:
            # one decorated function / method, called once per registration (with the spec as its
            # argument): every call must get its own teardown part
            if self.shared_ctf is None:
                async def shared_gen(sp: dict):  # type: ignore[no-untyped-def]
                    b_, a_, e_ = interp.behaviour(sp)
                    interp.trace.append(["ctxtd-started", sp["id"]])
                    exc = yield
                    try:
                        b_(exc, True)
                        await checkpoints(sp.get("cps", 0))
                        await vsleep(sp.get("sleep", 0))
                        a_()
                    except BaseException as e:
                        e_(e)
                        raise
                    else:
                        e_(None)

                class SharedHolder:
                    start = context_teardown(shared_gen)

                self.shared_ctf = (context_teardown(shared_gen), SharedHolder)
            if spec["route"] == "ctxtd_func":
                await self.shared_ctf[0](spec)
            else:
                await self.shared_ctf[1].start(spec)  # (plain function on the class: spec is its only argument)
            self.reg_order.append(spec)
            self.trace.append(["registered", spec["id"], spec["route"] + "(shared)"])
            return
        begin, after, end = self.behaviour(spec)
        cps, sl = spec.get("cps", 0), spec.get("sleep", 0)

        async def gen_body(*_self: Any):
            interp.trace.append(["ctxtd-started", spec["id"]])
            exc = yield
            try:
                begin(exc, True)
                await checkpoints(cps)
                await vsleep(sl)
                after()
            except BaseException as e:
                end(e)
                raise
            else:
                end(None)

        if spec["route"] == "ctxtd_func":
            await context_teardown(gen_body)()
        else:
            class Holder:
                @context_teardown
                async def start(self):  # type: ignore[no-untyped-def]
                    interp.trace.append(["ctxtd-started", spec["id"]])
                    exc = yield
                    try:
                        begin(exc, True)
                        await checkpoints(cps)
                        await vsleep(sl)
                        after()
                    except BaseException as e:
                        end(e)
                        raise
                    else:
                        end(None)

            await Holder().start()
        self.reg_order.append(spec)
        self.trace.append(["registered", spec["id"], spec["route"]])

    # -- body ------------------------------------------------------------------------------
    async def body_cp(self, n: int) -> None:
        ending = self.case["ending"]
        for _ in range(n):
            self.cp_count += 1
            if ending["kind"] == "cancel" and self.cp_count == ending["at"]:
                self.scope.cancel()
            await anyio.lowlevel.checkpoint()

    async def do_items(self) -> None:
        for item in self.case["items"]:
            if "cp" in item:
                if self.case["kind"] != "component":
                    await self.body_cp(item["cp"])
                else:
                    await checkpoints(item["cp"])
            else:
                spec = item["reg"]
                if spec["route"].startswith("ctxtd"):
                    await self.register_ctxtd(spec)
                else:
                    self.register(spec)

    async def block(self) -> None:
        """The body of the `async with` block under test."""
        from asphalt.core import Component, start_component

        case = self.case
        if case["kind"] == "component":
            interp = self

            sspec = case.get("start_spec")
            if sspec:
                # the documented idiom: the component's start() itself is a @context_teardown generator
                from asphalt.core import context_teardown

                begin, after, end = self.behaviour(sspec)
                cps, sl = sspec.get("cps", 0), sspec.get("sleep", 0)

                class Comp(Component):
                    @context_teardown
                    async def start(self):  # type: ignore[no-untyped-def]
                        await interp.do_items()
                        interp.reg_order.append(sspec)  # registered when the generator reaches its yield
                        exc = yield
                        try:
                            begin(exc, True)
                            await checkpoints(cps)
                            await vsleep(sl)
                            after()
                        except BaseException as e:
                            end(e)
                            raise
                        else:
                            end(None)
            else:
                class Comp(Component):  # type: ignore[no-redef]
                    async def start(self) -> None:
                        await interp.do_items()

            await start_component(Comp, timeout=None)
        else:
            await self.do_items()
        await self.body_cp(case["tail"])
        ending = case["ending"]
        if ending["kind"] == "raise":
            self.block_exc = make_exc(ending["exc"], "block")
            raise self.block_exc
        if ending["kind"] == "cancel":
            raise HarnessError("cancellation point was not reached")

    async def run_block(self) -> Any:
        """Runs the context under test, returns (caught exception, cancelled_caught)."""
        from asphalt.core import Context

        caught: BaseException | None = None
        try:
            with anyio.CancelScope() as scope:
                self.scope = scope
                self.ctx = Context()
                async with self.ctx:
                    try:
                        await self.block()
                    except BaseException as exc:
                        if self.block_exc is None and not isinstance(exc, anyio.get_cancelled_exc_class()):
                            self.note_escape(exc)
                        if self.block_exc is None:
                            self.block_exc = exc  # cancellation (or unexpected) ended the block
                        raise
        except BaseException as exc:
            caught = exc
        return caught, scope.cancelled_caught

    def note_escape(self, exc: BaseException) -> None:
        for leaf in flatten_exc(exc):
            if isinstance(leaf, HarnessError) or (isinstance(leaf, Exception) and innermost_is_harness(leaf)
                                                  and not isinstance(leaf, (VErr, VErr2))):
                if self.harness_exc is None:
                    self.harness_exc = leaf

    async def main(self) -> None:
        from asphalt.core import Context

        case = self.case

        async def inner() -> Any:
            if case["kind"] == "nested":
                async with Context():
                    return await self.run_block()
            return await self.run_block()

        if case["ambient"]:
            try:
                raise KeyError("ambient")
            except KeyError:
                self.result = await inner()
        else:
            self.result = await inner()

    # -- oracle ----------------------------------------------------------------------------
    def judge(self) -> Outcome:
        case = self.case
        out = self.out
        caught, cancelled_caught = self.result
        cancelled_cls = self.cancelled_cls
        ending = case["ending"]["kind"]

        # 1. sequence: reference LIFO stack with growth during teardown
        stack = list(self.reg_order)
        expected_seq: list[list[Any]] = []
        while stack:
            s = stack.pop()
            expected_seq.append(["begin", s["id"]])
            stack.extend(s.get("nested", []))
            expected_seq.append(["end", s["id"]])
        observed = [t for t in self.trace if t[0] in ("begin", "end")]
        if observed != expected_seq:
            begins = [t[1] for t in observed if t[0] == "begin"]
            exp_begins = [t[1] for t in expected_seq if t[0] == "begin"]
            if sorted(begins) != sorted(exp_begins):
                missing = [i for i in exp_begins if i not in begins]
                dup = sorted({i for i in begins if begins.count(i) > 1})
                if missing:
                    # classify what kind of callback got lost
                    specs = {s["id"]: s for s in self.all_specs()}
                    after_raise = any(sid in exp_begins and exp_begins.index(sid) < exp_begins.index(missing[0])
                                      for sid, _ in self.raised)
                    nested = all(self.is_nested(i) for i in missing)
                    kind = "nested-callbacks-lost" if nested else ("callbacks-after-raise-lost" if after_raise else "callbacks-lost")
                    self.disc(kind, f"callbacks {missing} never ran; observed {begins}, expected {exp_begins}")
                elif dup:
                    self.disc("callback-ran-twice", f"callbacks {dup} ran more than once: {begins}")
                else:
                    self.disc("unexpected-callbacks", f"observed {begins}, expected {exp_begins}")
            elif begins != exp_begins:
                self.disc("order-not-lifo", f"callbacks ran in order {begins}, LIFO order of registration is {exp_begins}")
            else:
                self.disc("overlap", f"callbacks overlapped / were not awaited before the next began: {observed}")
        elif self.overlap:
            self.disc("overlap", f"callback began while another was running: {self.overlap}")

        # 2. exception passed to pass_exception callbacks / sent into generators
        for sid, got in self.recv.items():
            if ending == "return":
                ok = got is None
                want = "None (clean exit)"
            elif ending == "raise":
                ok = got is self.block_exc
                want = f"the block's exception {self.block_exc!r}"
            else:
                ok = isinstance(got, cancelled_cls)
                want = "the cancellation exception"
            if not ok:
                prev = [e for _, e in self.raised]
                if got is not None and any(got is e for e in prev):
                    b = "pass-exception-from-other-callback"
                elif case["ambient"] and isinstance(got, KeyError):
                    b = "pass-exception-ambient"
                else:
                    b = "pass-exception-wrong"
                self.disc(b, f"callback {sid} received {got!r}, expected {want}")
                break

        # 3. closed flag
        if self.ctx is not None and not self.ctx.closed:
            self.disc("not-closed-after", "ctx.closed is False after the block was left")
        if any(c is False for c in self.closed_seen_in_cb):
            self.disc("not-closed-during", "ctx.closed was False inside a teardown callback")

        # 4. what the caller observes
        R = [e for _, e in self.raised if not isinstance(e, cancelled_cls)]
        if R:
            groups = all_groups(caught)
            matching = []
            for g in groups:
                members = [m for m in g.exceptions if not isinstance(m, cancelled_cls)
                           and not (isinstance(m, BaseExceptionGroup) and all(isinstance(x, cancelled_cls) for x in flatten_exc(m)))]
                if len(members) == len(R) and all(_same(a, b) for a, b in zip(members, R)):
                    matching.append(g)
            # wrappers around the matching group (task group / nursery) hold the same leaves:
            # count only the innermost of such a chain
            matching = [g for g in matching
                        if not any(m is h for m in g.exceptions for h in matching if h is not g)]
            if len(matching) != 1:
                leaves = flatten_exc(caught)
                lost = [e for e in R if not all(any(x is l for l in leaves) for x in flatten_exc(e))]
                if caught is None:
                    self.disc("callback-exceptions-swallowed", f"callbacks raised {R!r} but the block exited normally")
                elif lost:
                    self.disc("callback-exception-lost", f"callbacks raised {R!r}; {lost!r} not found in {caught!r}")
                else:
                    self.disc("callback-exceptions-not-one-group",
                              f"callbacks raised {R!r}; no single group with exactly these members in {_tree(caught)}")
        else:
            if ending == "return":
                if caught is not None:
                    self.disc("clean-exit-raised", f"clean exit, no callback raised, but caller saw {caught!r}")
            elif ending == "raise":
                be = self.block_exc
                if isinstance(be, Exception) and not isinstance(be, BaseExceptionGroup):
                    if caught is not be:
                        self.disc("plain-exception-wrapped", f"block raised {be!r}; caller saw {_tree(caught)}")
                else:
                    # group objects may be re-derived on their way out (cancel scopes split groups);
                    # the leaves must all be there, by identity
                    got_leaves = flatten_exc(caught)
                    ok = all(any(x is l for l in got_leaves) for x in flatten_exc(be))
                    if not ok:
                        self.disc("block-exception-lost", f"block raised {be!r}; caller saw {_tree(caught)}")
            else:
                if caught is not None or not cancelled_caught:
                    self.disc("cancel-outcome", f"cancelled block: caller saw {caught!r}, cancelled_caught={cancelled_caught}")
        if self.cp_count and case["ending"]["kind"] == "cancel" and not isinstance(self.block_exc, cancelled_cls):
            raise HarnessError(f"block was not ended by cancellation: {self.block_exc!r}")

        n_cb = len(self.all_specs())
        labs = {case["backend"], "kind=" + case["kind"], "ending=" + ending + (":" + case["ending"].get("exc", "") if ending == "raise" else ""),
                f"callbacks={min(n_cb, 8)}{'+' if n_cb > 8 else ''}"}
        if case["ambient"]:
            labs.add("ambient")
        if any(s.get("nested") for s in self.all_specs()):
            labs.add("registers-during-teardown")
        if R:
            labs.add("callback-raises")
        if len(R) >= 2:
            labs.add("callbacks-raise>=2")
        if any(isinstance(e, cancelled_cls) for _, e in self.raised):
            labs.add("callback-cancelled")
        for r in {s["route"] for s in self.all_specs()}:
            labs.add("route=" + r)
        out.labels = sorted(labs)
        specs = self.all_specs()
        out.nontrivial = n_cb >= 2 and (bool(R) or any(s["kind"] != "sync" for s in specs)
                                        or any(s.get("nested") for s in specs) or ending != "return" or case["ambient"])
        out.trace = {"trace": self.trace[:80], "caught": _tree(caught), "raised": [[i, repr(e)] for i, e in self.raised]}
        return out

    def all_specs(self) -> list[dict]:
        outl: list[dict] = []

        def walk(s: dict) -> None:
            outl.append(s)
            for n in s.get("nested", []):
                walk(n)
        for s in self.reg_order:
            walk(s)
        return outl

    def is_nested(self, sid: int) -> bool:
        return all(s["id"] != sid for s in self.reg_order)


def _same(a: BaseException, b: BaseException) -> bool:
    """Identity, or - for groups, which task groups / cancel scopes may re-derive - same leaves."""
    if a is b:
        return True
    if isinstance(a, BaseExceptionGroup) and isinstance(b, BaseExceptionGroup):
        la, lb = flatten_exc(a), flatten_exc(b)
        return len(la) == len(lb) and all(x is y for x, y in zip(la, lb))
    return False


def _tree(exc: BaseException | None) -> str:
    if exc is None:
        return "None"
    if isinstance(exc, BaseExceptionGroup):
        return f"{type(exc).__name__}[{', '.join(_tree(e) for e in exc.exceptions)}]"
    return repr(exc)


def run_case(case: dict, prop: str) -> Outcome:
    it = Interp(case, prop)

    async def main() -> None:
        it.cancelled_cls = anyio.get_cancelled_exc_class()
        await it.main()

    try:
        run_virtual(case["backend"], main, sched_seed=case.get("sched_seed", 0))
    except Deadlock as exc:
        it.disc("deadlock", f"teardown deadlocked: {exc}; trace tail {it.trace[-4:]}")
        it.out.trace = it.trace[:80]
        return it.out
    except HarnessError:
        raise
    except BaseException as exc:
        if it.harness_exc is not None or any(innermost_is_harness(l) for l in flatten_exc(exc)):
            raise
        it.disc("run-raised:" + type(exc).__name__, f"run raised {short_exc(exc)}")
        it.out.trace = it.trace[:80]
        return it.out
    if it.harness_exc is not None:
        raise HarnessError(f"harness exception inside the run: {short_exc(it.harness_exc)}") from it.harness_exc
    return it.judge()


def shrink_candidates(case: dict):
    items = case["items"]
    for i in range(len(items)):
        c = copy.deepcopy(case)
        del c["items"][i]
        if c["ending"]["kind"] == "cancel":
            c["ending"]["at"] = 1
            c["tail"] = max(c["tail"], 1)
        yield c
    for key, val in (("ambient", False), ("kind", "nested"), ("backend", "asyncio"), ("sched_seed", 0), ("tail", 0)):
        if case.get(key) != val and not (key == "tail" and case["ending"]["kind"] == "cancel"):
            c = copy.deepcopy(case)
            c[key] = val
            yield c
    if case["ending"]["kind"] != "return":
        c = copy.deepcopy(case)
        c["ending"] = {"kind": "return"}
        yield c

    def specs(c: dict):
        def walk(s: dict):
            yield s
            for n in s.get("nested", []):
                yield from walk(n)
        for it_ in c["items"]:
            if "reg" in it_:
                yield from walk(it_["reg"])

    n = sum(1 for _ in specs(case))
    for k in range(n):
        for field, val in (("nested", None), ("raises", None), ("cps", 0), ("sleep", 0), ("kind", "sync"), ("route", "ctx"), ("pass_exc", True)):
            c = copy.deepcopy(case)
            s = list(specs(c))[k]
            if field == "kind" and s["route"].startswith("ctxtd"):
                continue
            if field == "route" and s["route"].startswith("ctxtd"):
                s["route"] = "ctx"
                s["pass_exc"] = True
                yield c
                continue
            if field not in s or s[field] == val:
                continue
            if val is None:
                del s[field]
                if field == "raises":
                    s.pop("raise_when", None)
            else:
                s[field] = val
            yield c
