"""E7 - C16: `asphalt run` configuration precedence and service selection.

case = {files: [cfg...], sets: [{"path": [k...], "value": v}], flag: None|name, env: None|name, envvars: {name: value|None},
        textfiles: {name: text}, binfiles: {name: [bytes...]}, subprocess: bool}
Tagged scalars inside a cfg are encoded as {"$tag": ["Env"|"TextFile"|"BinaryFile", name]}.

The oracle never calls the code under test: expected values are the generator's Python
values pushed through an independently written merge / override / selection procedure.
"""

from __future__ import annotations

import copy
import itertools
import json
import os
import shutil
import subprocess
import sys
import tempfile
from typing import Any
from unittest import mock

import yaml
from hypothesis import strategies as st

from harness.core import HarnessError, Outcome, short_exc
from harness.engines.config_merge import ref_merge
from harness.gen import D

_SCRATCH: str | None = None
SERVICE_NAMES = ["web", "worker", "default", "db"]


_SCRATCH_PID = -1


def scratch() -> str:
    """A per-process scratch directory (workers are forked: never share the parent's)."""
    global _SCRATCH, _SCRATCH_PID
    if _SCRATCH is None or _SCRATCH_PID != os.getpid() or not os.path.isdir(_SCRATCH):
        import atexit

        _SCRATCH = tempfile.mkdtemp(prefix="verif-cli-")
        _SCRATCH_PID = os.getpid()
        atexit.register(_cleanup, _SCRATCH, os.getpid())
    return _SCRATCH


def cleanup() -> None:
    """Called by the driver when a process is done with this engine."""
    global _SCRATCH
    if _SCRATCH is not None and _SCRATCH_PID == os.getpid():
        shutil.rmtree(_SCRATCH, True)
        _SCRATCH = None


def _cleanup(path: str, pid: int) -> None:
    if os.getpid() == pid:
        shutil.rmtree(path, True)


class Tagged:
    def __init__(self, tag: str, value: str) -> None:
        self.tag, self.value = tag, value


class _Dumper(yaml.SafeDumper):
    pass


_Dumper.add_representer(Tagged, lambda dumper, t: dumper.represent_scalar("!" + t.tag, t.value))


# =====================================================================================
# reference semantics (written from the statement of C16 and the deployment guide)
# =====================================================================================


class ExpectedError(Exception):
    pass


def resolve_tags(v: Any, case: dict, base: str) -> Any:
    if isinstance(v, dict):
        if set(v) == {"$tag"}:
            kind, name = v["$tag"]
            if kind == "Env":
                return case["envvars"].get(name)
            if kind == "TextFile":
                return case["textfiles"][name]
            return bytes(case["binfiles"][name])
        return {k: resolve_tags(x, case, base) for k, x in v.items()}
    if isinstance(v, list):
        return [resolve_tags(x, case, base) for x in v]
    return v


def expected_call(case: dict, base: str) -> tuple:
    config: dict = {}
    for f in case["files"]:
        config = ref_merge(config, resolve_tags(f, case, base))
    for s in case["sets"]:
        section = config
        for part in s["path"][:-1]:
            if part not in section:
                section[part] = {}
            section = section[part]
            if not isinstance(section, dict):
                raise HarnessError("--set path goes through a non-mapping")
        section[s["path"][-1]] = copy.deepcopy(s["value"])
    services = config.pop("services", {})
    if "component" in config:
        component = config.pop("component")
        if "default" not in services:
            services["default"] = {"component": component}
    selected = case["flag"] or case["env"]
    if not services:
        raise ExpectedError("no services")
    if selected:
        if selected not in services:
            raise ExpectedError("service not found")
        svc = services[selected]
    elif len(services) == 1:
        svc = next(iter(services.values()))
    elif "default" in services:
        svc = services["default"]
    else:
        raise ExpectedError("ambiguous")
    merged = ref_merge(config, svc)
    if "component" not in merged:
        raise ExpectedError("no component")
    root = merged.pop("component")
    if not isinstance(root, dict) or "type" not in root:
        raise ExpectedError("no type")
    root = dict(root)
    rtype = root.pop("type")
    kwargs = dict(merged)
    kwargs.setdefault("backend", "asyncio")
    kwargs.setdefault("backend_options", {})
    return rtype, root, kwargs


# =====================================================================================
# generation
# =====================================================================================

TOP_KEYS = ["logging", "max_threads", "start_timeout", "custom", "a.b"]
COMP_KEYS = ["port", "host", "opts", "components", "x.y"]


def _scalar(d: D) -> Any:
    return d.pick([0, 1, 5, -2, True, False, None, "s", "5", "true", "a b", "", 1.5, "a=b", "x=1=2"])  # (values may contain "=")


def _val(d: D, depth: int, tags: bool, case: dict) -> Any:
    k = d.weighted([("scalar", 50), ("dict", 25 if depth < 2 else 0), ("list", 12), ("tag", 13 if tags else 0)])
    if k == "scalar":
        return _scalar(d)
    if k == "list":
        return [_scalar(d) for _ in range(d.int(0, 3))]
    if k == "dict":
        return {key: _val(d, depth + 1, tags, case) for key in _somekeys(d, ["k1", "k2", "k.3", "port"], 3)}
    kind = d.pick(["Env", "Env", "TextFile", "BinaryFile"])
    if kind == "Env":
        name = d.pick(["VERIF_ENV_A", "VERIF_ENV_B", "VERIF_ENV_UNSET"])
        return {"$tag": ["Env", name]}
    if kind == "TextFile":
        name = d.pick(["t1.txt", "t 2.txt"])
        case["textfiles"].setdefault(name, d.pick(["hello", "line1\nline2\n", ""]))
        return {"$tag": ["TextFile", name]}
    name = d.pick(["b1.bin", "b 2.bin"])
    case["binfiles"].setdefault(name, [d.int(0, 255) for _ in range(d.int(0, 6))])
    return {"$tag": ["BinaryFile", name]}


def _somekeys(d: D, pool: list[str], hi: int) -> list[str]:
    out: list[str] = []
    for _ in range(d.int(0, hi)):
        k = d.pick(pool)
        if k not in out:
            out.append(k)
    return out


def _component(d: D, case: dict, with_type: bool = True) -> dict:
    c: dict[str, Any] = {}
    real = case.get("subprocess")
    if with_type:
        c["type"] = "verif_cli_mod:Rec" if real else d.pick(["mod:Root", "other:App", "ep"])
    for k in _somekeys(d, [k for k in COMP_KEYS if not (real and k == "components")], 3):
        c[k] = _val(d, 1, True, case)
    return c


def _top(d: D, case: dict, f: dict, hi: int) -> None:
    if case.get("subprocess"):
        # the real run_application only accepts its own options
        for k in _somekeys(d, ["logging", "max_threads", "start_timeout"], hi):
            f[k] = {"logging": None, "max_threads": d.int(1, 4), "start_timeout": d.pick([5, 7.5])}[k]
    else:
        for k in _somekeys(d, TOP_KEYS, hi):
            f[k] = _val(d, 0, True, case)


def _file(d: D, case: dict, layout: str, names: list[str], first: bool) -> dict:
    f: dict[str, Any] = {}
    _top(d, case, f, 3)
    if case.get("subprocess") and first:
        f["logging"] = None
    if layout == "component":
        if first or d.pct(60):
            f["component"] = _component(d, case, with_type=first or d.pct(50))
    else:
        svcs: dict[str, Any] = {}
        for n in names:
            if first or d.pct(60):
                s: dict[str, Any] = {}
                if first or d.pct(60):
                    s["component"] = _component(d, case, with_type=first or d.pct(40))
                _top(d, case, s, 2)
                svcs[n] = s
        if svcs:
            f["services"] = svcs
    return f


def _paths(cfg: Any, prefix: tuple = ()) -> list[tuple]:
    """All key paths of mappings inside cfg (for --set targets)."""
    out = []
    if isinstance(cfg, dict) and set(cfg) != {"$tag"}:
        for k, v in cfg.items():
            out.append(prefix + (k,))
            out.extend(_paths(v, prefix + (k,)))
    return out


@st.composite
def cases(draw: Any, tier: str) -> dict:
    d = D(draw)
    case: dict[str, Any] = {"textfiles": {}, "binfiles": {}, "envvars": {"VERIF_ENV_A": d.pick(["alpha", "1", ""]), "VERIF_ENV_B": "b b"}}
    case["subprocess"] = d.int(0, 399) < (3 if tier == "quick" else 4)  # a small slice runs the real process
    layout = d.weighted([("component", 30), ("one", 20), ("several_default", 25), ("several_nodefault", 25)])
    if layout == "component":
        names: list[str] = []
    elif layout == "one":
        names = [d.pick(SERVICE_NAMES)]
    elif layout == "several_default":
        names = ["default"] + [n for n in ("web", "worker") if d.pct(70)] or ["default", "web"]
        if len(names) == 1:
            names.append("web")
    else:
        names = ["web", "worker"] + (["db"] if d.bool() else [])
    nfiles = d.weighted([(1, 45), (2, 40), (3, 15)])
    files = [_file(d, case, layout, names, i == 0) for i in range(nfiles)]
    if layout == "component" and nfiles >= 2 and d.pct(6):
        # a mapping nested far deeper than usual (a deep component tree), defined in two files: "deep merge" has no depth limit
        L = d.pick([9, 17, 20, 30])

        def nest(leaf: dict) -> dict:
            cur = leaf
            for _ in range(L):
                cur = {"k": cur}
            return cur

        for i, f in enumerate(files[:2]):
            if isinstance(f.get("component"), dict):
                f["component"]["deepsec"] = nest({"host": "h", "tls": 1} if i == 0 else {"port": d.int(1, 9)})
        case["deep_levels"] = L
    if d.pct(4):
        files[0].pop("component", None)  # rare: nothing to run
    case["files"] = files
    case["layout"] = layout
    # --set overrides: existing paths (override) and new paths (extend); never through a non-mapping
    merged: dict = {}
    for f in files:
        merged = ref_merge(merged, resolve_tags(f, case, ""))  # tagged values are scalars once loaded
    merged = copy.deepcopy(merged)  # (ref_merge shares unmerged sub-dicts with the files)
    sets = []
    for _ in range(d.weighted([(0, 35), (1, 30), (2, 20), (3, 10), (4, 5)])):
        ps = _paths(merged)
        if ps and d.pct(65):
            p = list(d.pick(ps))
            if d.pct(30):
                # go one level below an existing mapping
                cur: Any = merged
                for k in p:
                    cur = cur[k]
                if isinstance(cur, dict) and set(cur) != {"$tag"}:
                    p.append(d.pick(["new", "k.9", "port"]))
        else:
            p = [d.pick(["custom", "fresh", "a.b"])] + ([d.pick(["sub", "k.1"])] if d.bool() else [])
        # the path must not cross a non-mapping
        cur = merged
        ok = True
        for k in p[:-1]:
            if not isinstance(cur, dict) or set(cur) == {"$tag"}:
                ok = False
                break
            cur = cur.get(k, {})
        if not ok or not isinstance(cur, dict) or set(cur) == {"$tag"}:
            continue
        v = d.weighted([(_scalar(d), 70), ([1, "a"], 10), ({"n": 1, "m": [2]}, 20)])
        # structural keys keep their structure: sections stay sections, a type stays a reference
        if p[-1] in ("services", "component") or (len(p) == 2 and p[0] == "services"):
            continue
        if p[-1] == "type":
            v = d.pick(["mod:Root", "set:Type"])
        sets.append({"path": p, "value": v})
        sec = merged
        for k in p[:-1]:
            sec = sec.setdefault(k, {})
        sec[p[-1]] = copy.deepcopy(v)
    if case.get("deep_levels") and isinstance(merged.get("component"), dict) and "deepsec" in merged["component"] and d.bool():
        # ... and a --set option addressing its innermost level (a path of some twenty keys)
        p = ["component", "deepsec"] + ["k"] * case["deep_levels"] + ["viaset"]
        sec, ok = merged, True
        for k in p[:-1]:
            sec = sec.get(k) if isinstance(sec, dict) else None
            if not isinstance(sec, dict) or set(sec) == {"$tag"}:
                ok = False  # (an earlier generated --set replaced part of the chain)
                break
        if ok:
            sets.append({"path": p, "value": 7})
            sec[p[-1]] = 7
    case["sets"] = sets
    if layout == "component" and d.pct(8):
        # no configuration file at all ("read all the given configuration files, if any"): everything comes from --set
        case["files"] = []
        case["sets"] = [{"path": ["component", "type"], "value": "mod:Root"}] + (
            [{"path": ["component", "port"], "value": d.int(1, 9)}] if d.bool() else [])
    if not case["sets"] and not case["subprocess"] and len(names) >= 2 and case["files"] and d.pct(30):
        # YAML anchors: two services of the first file share one component mapping (`&id001` / `*id001`), and a later file
        # overrides a nested key for one of them only.  (Not combined with --set: what an in-place override does to an
        # aliased node is YAML's business, not this property's.)
        svcs = case["files"][0].get("services")
        if isinstance(svcs, dict) and len(svcs) >= 2:
            a, b = list(svcs)[:2]
            comp = copy.deepcopy(svcs[a].get("component") or {"type": "mod:Root"})
            comp["opts"] = {"k1": d.int(0, 3), "port": {"k2": "shared"}}
            svcs[a]["component"] = comp
            svcs[b]["component"] = copy.deepcopy(comp)
            over = {"services": {d.pick([a, b]): {"component": {"opts": {"k1": 9, "port": {"k2": "mine"}}}}}}
            if len(case["files"]) >= 2:
                case["files"][-1] = ref_merge(case["files"][-1], over)
            else:
                case["files"].append(over)
            case["anchors"] = True
    pool = names + ["nosuch"] if names else ["default", "nosuch"]
    case["flag"] = d.pick(pool) if d.pct(35) else None
    case["env"] = d.pick(pool) if d.pct(30) else None
    if case["subprocess"]:
        # --set values on run_application options must stay valid for the real function
        case["sets"] = [s for s in case["sets"] if s["path"][0] not in ("logging", "max_threads", "start_timeout", "custom", "fresh", "a.b")
                        and not (len(s["path"]) >= 3 and s["path"][0] == "services" and s["path"][2] != "component")
                        and s["path"][-1] != "type"]
    return case


def strategy(prop: str, tier: str) -> st.SearchStrategy:
    return cases(tier)


def exhaustive_cases(prop: str, tier: str, w: int, n: int):
    """Selection ladder x layouts x --service x ASPHALT_SERVICE, completely."""
    layouts = {
        "none": {},
        "component": {"component": {"type": "mod:Root", "port": 1}},
        "one": {"services": {"web": {"component": {"type": "mod:Web"}}}},
        "one_default": {"services": {"default": {"component": {"type": "mod:Def"}}}},
        "several_default": {"services": {"default": {"component": {"type": "mod:Def"}}, "web": {"component": {"type": "mod:Web"}, "max_threads": 3}}},
        "several_nodefault": {"services": {"worker": {"component": {"type": "mod:Wrk"}}, "web": {"component": {"type": "mod:Web"}}}},
    }
    sel = [None, "web", "default", "worker", "nosuch"]
    i = 0
    for (ln, cfg), flag, env, top in itertools.product(layouts.items(), sel, sel, (False, True)):
        i += 1
        if i % n != w:
            continue
        f = copy.deepcopy(cfg)
        if top:
            f["max_threads"] = 9
            f["logging"] = {"version": 1}
        yield {"files": [f], "sets": [], "flag": flag, "env": env, "envvars": {}, "textfiles": {}, "binfiles": {}, "layout": ln, "subprocess": False}


# =====================================================================================
# interpreter
# =====================================================================================


def _render(v: Any, base: str, memo: dict | None = None) -> Any:
    """memo: equal non-empty mappings become ONE object, which yaml.dump writes as an anchor and aliases."""
    if isinstance(v, dict):
        if set(v) == {"$tag"}:
            kind, name = v["$tag"]
            return Tagged(kind, name if kind == "Env" else os.path.join(base, name))
        if memo is not None and v:
            key = json.dumps(v, sort_keys=True, default=repr)
            if key not in memo:
                memo[key] = {k: _render(x, base, memo) for k, x in v.items()}
            return memo[key]
        return {k: _render(x, base, memo) for k, x in v.items()}
    if isinstance(v, list):
        return [_render(x, base, memo) for x in v]
    return v


def _set_arg(s: dict) -> str:
    key = ".".join(p.replace(".", "\\.") for p in s["path"])
    text = yaml.safe_dump(s["value"], default_flow_style=True, width=10**6)
    text = text.split("\n...")[0].strip()
    return f"{key}={text}"


def run_case(case: dict, prop: str) -> Outcome:
    import click

    from asphalt.core._cli import main as cli_main

    out = Outcome()
    base = scratch()
    for name, text in case["textfiles"].items():
        with open(os.path.join(base, name), "w") as fh:
            fh.write(text)
    for name, data in case["binfiles"].items():
        with open(os.path.join(base, name), "wb") as fh:
            fh.write(bytes(data))
    paths = []
    for i, f in enumerate(case["files"]):
        p = os.path.join(base, f"conf {i}.yaml")
        with open(p, "w") as fh:
            yaml.dump(_render(f, base, {} if case.get("anchors") else None), fh, Dumper=_Dumper, default_flow_style=False)
        paths.append(p)
    args = ["run"] + paths
    for k, s in enumerate(case["sets"]):
        # both spellings click accepts
        args += ["--set", _set_arg(s)] if (k + len(case["files"])) % 2 else ["--set=" + _set_arg(s)]
    if case["flag"]:
        args += [["--service", case["flag"]], ["-s", case["flag"]], ["--service=" + case["flag"]]][(len(case["sets"]) + len(case["files"])) % 3]
    try:
        exp: Any = expected_call(case, base)
    except ExpectedError as exc:
        exp = exc
    calls: list[tuple] = []

    def recorder(*a: Any, **k: Any) -> None:
        calls.append((a, k))

    env = {k: v for k, v in os.environ.items() if not k.startswith("VERIF_ENV_") and k != "ASPHALT_SERVICE"}
    for k, v in case["envvars"].items():
        if v is not None:
            env[k] = v
    if case["env"]:
        env["ASPHALT_SERVICE"] = case["env"]
    error: BaseException | None = None
    with mock.patch.dict(os.environ, env, clear=True), mock.patch("asphalt.core._cli.run_application", recorder):
        try:
            cli_main.main(args, standalone_mode=False)
        except (click.ClickException, click.Abort, SystemExit) as exc:
            if not (isinstance(exc, SystemExit) and exc.code in (0, None)):
                error = exc
        except Exception as exc:
            error = exc
    desc = f"asphalt {' '.join(a if not a.startswith(base) else os.path.basename(a) for a in args)} [ASPHALT_SERVICE={case['env']}]"

    def disc(bucket: str, msg: str) -> None:
        out.add("cli", "cli:" + bucket, msg)

    if isinstance(exp, ExpectedError):
        if calls:
            disc(f"started-despite-error:{exp}", f"{desc}: expected an error ({exp}) but run_application was called with {calls[0]!r}")
        elif error is None:
            disc(f"no-error:{exp}", f"{desc}: expected an error ({exp}) but the command succeeded without starting anything")
    else:
        if error is not None:
            disc("unexpected-error", f"{desc}: failed with {short_exc(error)}; expected run_application{exp!r}; files {case['files']!r}")
        elif len(calls) != 1:
            disc("call-count", f"{desc}: run_application called {len(calls)} times")
        else:
            (a, k) = calls[0]
            rtype, root, kwargs = exp
            if len(a) != 2:
                disc("call-shape", f"{desc}: positional arguments {a!r}")
            else:
                if a[0] != rtype:
                    b = "wrong-service" if any(_types_of(case, a[0])) else "wrong-type"
                    disc(b, f"{desc}: started component type {a[0]!r}, expected {rtype!r}")
                elif not _same(a[1], root):
                    disc("component-config:" + _direction(case, a[1], root, base), f"{desc}: root component config {a[1]!r}, expected {root!r}")
                elif not _same(k, kwargs):
                    disc("options:" + _direction(case, k, kwargs, base), f"{desc}: run_application options {k!r}, expected {kwargs!r}")
    # ---- a slice through the real process ------------------------------------------------
    if case.get("subprocess") and not isinstance(exp, ExpectedError):
        _subprocess_check(case, args, env, exp, disc, base)

    labs = {"layout=" + case.get("layout", "?"), f"files={len(case['files'])}", f"sets={min(len(case['sets']), 3)}"}
    if case["flag"]:
        labs.add("--service")
    if case["env"]:
        labs.add("ASPHALT_SERVICE")
    if isinstance(exp, ExpectedError):
        labs.add("expect-error:" + str(exp))
    if any("." in p for s in case["sets"] for p in s["path"]):
        labs.add("escaped-dot")
    if case["textfiles"] or case["binfiles"]:
        labs.add("file-tags")
    if case.get("subprocess"):
        labs.add("real-process")
    nested_both = _nested_on_both_sides(case["files"])
    if nested_both:
        labs.add("nested-key-in-two-files")
    svc_over_top = _service_overrides_nested_top(case)
    if svc_over_top:
        labs.add("service-overrides-nested-top-level")
    if case.get("anchors"):
        labs.add("yaml-anchors")
    out.labels = sorted(labs)
    out.nontrivial = bool((len(case["files"]) >= 2 and nested_both) or "escaped-dot" in labs or (case["flag"] and case["env"]) or svc_over_top)
    out.trace = {"args": [a if not a.startswith(base) else os.path.basename(a) for a in args], "expected": repr(exp)[:600],
                 "calls": repr(calls)[:600], "error": repr(error)}
    return out


def _same(a: Any, b: Any) -> bool:
    """Equality that distinguishes True from 1 and 1 from 1.0 (YAML types matter)."""
    if type(a) is not type(b):
        return False
    if isinstance(a, dict):
        return set(a) == set(b) and all(_same(a[k], b[k]) for k in a)
    if isinstance(a, list):
        return len(a) == len(b) and all(_same(x, y) for x, y in zip(a, b))
    return a == b


def _types_of(case: dict, t: Any) -> list:
    found = []

    def walk(v: Any) -> None:
        if isinstance(v, dict):
            if v.get("type") == t:
                found.append(1)
            for x in v.values():
                walk(x)
    for f in case["files"]:
        walk(f)
    return found


def _direction(case: dict, got: Any, want: Any, base: str) -> str:
    """Coarse root-cause label for a wrong configuration."""
    if case["sets"]:
        no_sets = dict(case, sets=[])
        try:
            r = expected_call(no_sets, base)
            if _same(got, r[1]) or _same(got, r[2]):
                return "set-ignored-or-overridden"
        except Exception:
            pass
    if len(case["files"]) >= 2:
        rev = dict(case, files=list(reversed(case["files"])))
        try:
            r = expected_call(rev, base)
            if _same(got, r[1]) or _same(got, r[2]):
                return "file-order"
        except Exception:
            pass
    return "value"


def _nested_on_both_sides(files: list[dict]) -> bool:
    def common(a: Any, b: Any, depth: int) -> bool:
        if isinstance(a, dict) and isinstance(b, dict):
            for k in a:
                if k in b:
                    if depth >= 1 and isinstance(a[k], dict) and isinstance(b[k], dict):
                        return True
                    if common(a[k], b[k], depth + 1):
                        return True
        return False
    return any(common(files[i], files[j], 0) for i in range(len(files)) for j in range(i + 1, len(files)))


def _service_overrides_nested_top(case: dict) -> bool:
    merged: dict = {}
    for f in case["files"]:
        merged = ref_merge(merged, f)
    for svc in (merged.get("services") or {}).values():
        if isinstance(svc, dict):
            for k, v in svc.items():
                if k != "component" and isinstance(v, dict) and isinstance(merged.get(k), dict):
                    return True
    return False


def _subprocess_check(case: dict, args: list[str], env: dict, exp: tuple, disc: Any, base: str) -> None:
    """Run the real `python -m asphalt run ...` with a recording CLI component."""
    rtype, root, kwargs = exp
    outfile = os.path.join(base, "recorded.json")
    if os.path.exists(outfile):
        os.remove(outfile)
    env = dict(env)
    env["VERIF_CLI_OUT"] = outfile
    env["PYTHONPATH"] = os.pathsep.join(sys.path)
    try:
        p = subprocess.run([sys.executable, "-m", "asphalt"] + args, env=env, capture_output=True, text=True, timeout=300)
    except subprocess.TimeoutExpired:
        return  # an overloaded machine is not a verdict: the in-process comparison above stands
    if p.returncode != 0:
        disc("subprocess-failed", f"python -m asphalt {' '.join(args[1:])} exited {p.returncode}: {p.stderr[-400:]}")
        return
    try:
        rec = json.load(open(outfile))
    except Exception as exc:
        disc("subprocess-no-record", f"component did not record its configuration: {exc}")
        return
    want = json.loads(json.dumps(root, default=lambda b: {"$bytes": list(b)}))
    if rec != want:
        disc("subprocess-config", f"real process: component received {rec!r}, expected {want!r}")


def shrink_candidates(case: dict):
    for i in range(len(case["sets"])):
        c = copy.deepcopy(case)
        del c["sets"][i]
        yield c
    if len(case["files"]) > 1:
        for i in range(len(case["files"])):
            c = copy.deepcopy(case)
            del c["files"][i]
            yield c
    for key in ("flag", "env"):
        if case.get(key):
            c = copy.deepcopy(case)
            c[key] = None
            yield c
    for fi, f in enumerate(case["files"]):
        for p in _paths(f):
            c = copy.deepcopy(case)
            cur = c["files"][fi]
            for k in p[:-1]:
                cur = cur[k]
            del cur[p[-1]]
            yield c
