"""E6 - C15: run_application - every ending tears down the root context and exits as documented.

case = {backend, sched_seed, cli: bool, comps: [{parent, prepare: [step]|None, start: [step]|None}],
        ending: {...}, start_timeout: int|None}
step = {op: sleep|td|svc|fail|signal|stall|svc_signal|svc_crash, ...}
"""

from __future__ import annotations

import copy
import signal
import warnings
from typing import Any

import anyio
from hypothesis import strategies as st

from harness.core import HarnessError, Outcome, flatten_exc, innermost_is_harness, short_exc
from harness.gen import BACKEND, SEED, D
from harness.vloop import Deadlock, backend_options

import enum


class ExitCode(enum.IntEnum):  # exit statuses are often spelled as an IntEnum: its members ARE integers
    OK = 0
    USAGE = 2
    LAST = 127
    TOO_BIG = 200


class _Status(int):
    pass


RESULTS = [None, 0, 1, 5, 127, 128, 255, -1, "x", 1.5, ExitCode.OK, ExitCode.USAGE, ExitCode.LAST, ExitCode.TOO_BIG, _Status(0), _Status(3)]


class Boom(Exception):
    pass


@st.composite
def cases(draw: Any, tier: str) -> dict:
    d = D(draw)
    n = d.int(1, 4 if tier == "quick" else 6)
    comps: list[dict] = []
    for i in range(n):
        parent = None if i == 0 else d.int(0, i - 1)
        c: dict[str, Any] = {"parent": parent}
        for ph in ("prepare", "start"):
            if d.pct(65):
                steps = []
                for _ in range(d.int(0, 3)):
                    k = d.weighted([("sleep", 25), ("td", 35), ("td_exc", 15), ("svc", 25)])
                    if k == "sleep":
                        steps.append({"op": "sleep", "d": d.int(1, 2)})
                    elif k == "svc":
                        steps.append({"op": "svc"})
                    else:
                        step = {"op": "td", "pass_exc": k == "td_exc", "nested": d.pct(25)}
                        if step["nested"] and d.pct(10):
                            step["late_many"] = d.pick([33, 40, 64])  # it registers dozens of further callbacks during teardown
                        if k == "td" and d.pct(35):
                            # the callback comes with a resource; sometimes a callable whose truth value is False
                            step["via"] = d.pick(["resource", "resource", "resource_falsy"])
                        steps.append(step)
                if d.pct(3):
                    # dozens of teardown callbacks on the root context
                    for _ in range(d.pick([32, 35, 48, 80])):
                        steps.append({"op": "td", "pass_exc": False, "nested": False})
                c[ph] = steps
            else:
                c[ph] = None
        comps.append(c)
    cli = d.pct(50)
    kinds = [("startup_fail", 18), ("timeout", 10), ("signal_start", 12), ("signal_service", 8), ("crash_during", 8), ("crash_after", 10)]
    kinds += [("run_result", 28), ("run_raises", 8)] if cli else [("signal_after", 30)]
    kind = d.weighted(kinds)
    ending: dict[str, Any] = {"kind": kind}
    case: dict[str, Any] = {"backend": draw(BACKEND), "sched_seed": draw(SEED), "cli": cli, "comps": comps, "ending": ending,
                            "start_timeout": d.pick([None, 50, 50]), "config": d.pick(["none", "empty"])}

    def some_phase(need: bool = True) -> tuple[int, str]:
        cand = [(i, ph) for i, c in enumerate(comps) for ph in ("prepare", "start") if c[ph] is not None]
        if not cand:
            comps[0]["start"] = []
            cand = [(0, "start")]
        return d.pick(cand)

    sig = d.pick(["SIGINT", "SIGTERM"])
    if kind == "run_result":
        ending["value"] = d.pick(list(range(len(RESULTS))))
    elif kind == "startup_fail":
        i = d.int(0, n - 1)
        opts = ["creating"] + [ph for ph in ("prepare", "start") if comps[i][ph] is not None]
        ph = d.pick(opts)
        ending.update(comp=i, phase=ph)
        if ph != "creating":
            comps[i][ph].insert(d.int(0, len(comps[i][ph])), {"op": "fail"})
    elif kind == "timeout":
        i, ph = some_phase()
        comps[i][ph].insert(d.int(0, len(comps[i][ph])), {"op": "stall"})
        case["start_timeout"] = "default" if d.pct(20) else d.int(1, 9)  # (left out: the documented default of 10 s applies)
    elif kind == "signal_start":
        i, ph = some_phase()
        pos = d.int(0, len(comps[i][ph]))
        comps[i][ph].insert(pos, {"op": "signal", "sig": sig})
        comps[i][ph].insert(pos + 1, {"op": "sleep", "d": 3})
        ending["sig"] = sig
    elif kind == "signal_service":
        i, ph = some_phase()
        comps[i][ph].insert(d.int(0, len(comps[i][ph])), {"op": "svc_signal", "sig": sig, "d": d.int(0, 1)})
        if comps[0]["start"] is None:
            comps[0]["start"] = []
        comps[0]["start"].append({"op": "sleep", "d": 4})
        ending["sig"] = sig
    elif kind == "signal_after":
        i, ph = some_phase()
        comps[i][ph].insert(d.int(0, len(comps[i][ph])), {"op": "svc_signal", "sig": sig, "d": 40})
        ending["sig"] = sig
        case["start_timeout"] = None if case["start_timeout"] is None else 30
    elif kind == "crash_during":
        i, ph = some_phase()
        comps[i][ph].insert(d.int(0, len(comps[i][ph])), {"op": "svc_crash", "d": 1})
        if comps[0]["start"] is None:
            comps[0]["start"] = []
        comps[0]["start"].append({"op": "sleep", "d": 5})
    elif kind == "crash_after":
        i, ph = some_phase()
        comps[i][ph].insert(d.int(0, len(comps[i][ph])), {"op": "svc_crash", "d": 40})
        case["start_timeout"] = None if case["start_timeout"] is None else 30
    return case


def strategy(prop: str, tier: str) -> st.SearchStrategy:
    return cases(tier)


class Interp:
    def __init__(self, case: dict) -> None:
        self.case = case
        self.out = Outcome()
        self.registered: list[str] = []
        self.ran: list[str] = []
        self.trace: list[Any] = []
        self.injected: BaseException | None = None
        self.crash_exc: BaseException | None = None
        self.run_exc: BaseException | None = None
        self.harness_exc: BaseException | None = None
        self.startup_done_seen = False
        self.run_called = 0
        self.crash_mark: str | None = None
        self.t_first: float | None = None  # virtual time at which the first component was constructed
        self.stall_ended_at: float | None = None

    def disc(self, bucket: str, msg: str) -> None:
        self.out.add("runner", "runner:" + bucket, msg)

    def note_escape(self, exc: BaseException) -> None:
        for leaf in flatten_exc(exc):
            if isinstance(leaf, HarnessError) or (isinstance(leaf, Exception) and innermost_is_harness(leaf) and not isinstance(leaf, Boom)):
                if self.harness_exc is None:
                    self.harness_exc = leaf

    def build(self) -> type:
        from asphalt.core import CLIApplicationComponent, Component, add_resource, add_teardown_callback, start_service_task

        case = self.case
        comps = case["comps"]
        interp = self
        ending = case["ending"]
        classes: dict[int, type] = {}

        async def run_steps(i: int, ph: str, steps: list[dict]) -> None:
            for si, st_ in enumerate(steps):
                op = st_["op"]
                name = f"{i}:{ph}:{si}"
                if op == "sleep":
                    await anyio.sleep(st_["d"])
                elif op == "td":
                    mark = "td:" + name

                    def cb(*a: Any, m: str = mark, nested: bool = bool(st_.get("nested")), many: int = st_.get("late_many", 0)) -> None:
                        interp.ran.append(m)
                        if nested:
                            # registered during teardown: runs next (LIFO)
                            add_teardown_callback(lambda: interp.ran.append(m + "+late"))
                            for k in range(many):
                                add_teardown_callback(lambda k=k: interp.ran.append(f"{m}+late{k}"))

                    if st_.get("nested"):
                        interp.registered.append(mark + "+late")  # (runs after its registrar: listed first)
                        for k in range(st_.get("late_many", 0)):
                            interp.registered.append(f"{mark}+late{k}")  # (LIFO: the last one registered runs first)
                    if st_.get("pass_exc"):
                        add_teardown_callback(lambda exc, cb=cb: cb(exc), pass_exception=True)
                    elif st_.get("via"):
                        extra = {"__len__": lambda self: 0} if st_["via"] == "resource_falsy" else {}
                        obj = type("ResourceCleanup", (), {"__call__": lambda self, cb=cb: cb(), **extra})()
                        add_resource(mark, "r" + name.replace(":", "_"), teardown_callback=obj)
                    else:
                        add_teardown_callback(cb)
                    interp.registered.append(mark)
                elif op in ("svc", "svc_signal", "svc_crash"):
                    mark = "svc:" + name

                    async def service(mark: str = mark, st_: dict = st_) -> None:
                        try:
                            if st_["op"] == "svc_signal":
                                await anyio.sleep(st_["d"])
                                interp.trace.append(["raise_signal", st_["sig"]])
                                signal.raise_signal(getattr(signal, st_["sig"]))
                            elif st_["op"] == "svc_crash":
                                await anyio.sleep(st_["d"])
                                interp.crash_exc = Boom("service task crash")
                                interp.crash_mark = mark
                                interp.trace.append(["crash"])
                                raise interp.crash_exc
                            await anyio.sleep_forever()
                        finally:
                            interp.ran.append(mark)

                    await start_service_task(service, mark)
                    interp.registered.append(mark)
                elif op == "fail":
                    interp.injected = Boom(f"injected {name}")
                    raise interp.injected
                elif op == "signal":
                    interp.trace.append(["raise_signal", st_["sig"]])
                    signal.raise_signal(getattr(signal, st_["sig"]))
                elif op == "stall":
                    try:
                        await anyio.sleep(10**5)
                    finally:
                        interp.stall_ended_at = anyio.current_time() - interp.t_first

                else:
                    raise HarnessError(op)

        for i in reversed(range(len(comps))):
            c = comps[i]
            children = [j for j, x in enumerate(comps) if x["parent"] == i]

            def __init__(self: Any, i: int = i, children: list = children) -> None:
                if interp.t_first is None:
                    interp.t_first = anyio.current_time()
                for j in children:
                    self.add_component(f"c{j}", classes[j])
                if ending["kind"] == "startup_fail" and ending["phase"] == "creating" and ending["comp"] == i:
                    interp.injected = Boom(f"injected creating {i}")
                    raise interp.injected

            ns: dict[str, Any] = {"__init__": __init__}
            for ph in ("prepare", "start"):
                if c[ph] is not None:
                    async def fn(self: Any, i: int = i, ph: str = ph, steps: list = c[ph]) -> None:
                        try:
                            await run_steps(i, ph, steps)
                        except BaseException as exc:
                            interp.note_escape(exc)
                            raise
                        if i == 0 and ph == "start":
                            interp.startup_done_seen = True
                    ns[ph] = fn
            base = Component
            if i == 0 and case["cli"]:
                base = CLIApplicationComponent

                async def run(self: Any) -> Any:
                    interp.run_called += 1
                    k = ending["kind"]
                    if k == "run_result":
                        await anyio.sleep(1)
                        return RESULTS[ending["value"]]
                    if k == "run_raises":
                        await anyio.sleep(1)
                        interp.run_exc = Boom("run() failed")
                        raise interp.run_exc
                    await anyio.sleep(10**4)
                    return 0

                ns["run"] = run
            classes[i] = type(f"App{i}", (base,), ns)
        return classes[0]

    def execute(self) -> None:
        from asphalt.core import run_application

        case = self.case
        root = self.build()
        got: dict[str, Any] = {"kind": "return"}
        stray: list[int] = []
        old = {s: signal.signal(s, lambda n, f: stray.append(n)) for s in (signal.SIGINT, signal.SIGTERM)}
        try:
            with warnings.catch_warnings(record=True) as wlist:
                warnings.simplefilter("always")
                try:
                    kwargs: dict[str, Any] = {"backend": case["backend"], "backend_options": backend_options(case["backend"], case.get("sched_seed", 0)),
                                              "logging": None}
                    if case["start_timeout"] != "default":
                        kwargs["start_timeout"] = case["start_timeout"]
                    if case.get("config") == "empty":
                        run_application(root, {}, **kwargs)
                    else:
                        run_application(root, **kwargs)
                except SystemExit as exc:
                    got = {"kind": "exit", "code": exc.code}
                except Deadlock:
                    raise
                except BaseException as exc:
                    dl = [l for l in flatten_exc(exc) if isinstance(l, Deadlock)]
                    if dl:
                        raise dl[0] from None
                    self.note_escape(exc)
                    got = {"kind": "raise", "exc": exc}
            got["warnings"] = [w for w in wlist if issubclass(w.category, UserWarning) and "SignalQueueFull" not in w.category.__name__
                               and ("exit code" in str(w.message) or "run() must return" in str(w.message))]
        finally:
            for s, h in old.items():
                signal.signal(s, h)
        self.got = got
        self.stray = stray

    def judge(self) -> Outcome:
        case = self.case
        out = self.out
        got = self.got
        ending = case["ending"]
        kind = ending["kind"]

        def describe() -> str:
            if got["kind"] == "exit":
                return f"SystemExit({got['code']!r})"
            if got["kind"] == "raise":
                return f"raised {got['exc']!r} ({[repr(x) for x in flatten_exc(got['exc'])]})"
            return "returned normally"

        def want_exit(code: int) -> bool:
            return got["kind"] == "exit" and isinstance(got["code"], int) and got["code"] == code  # (an int subclass exits with its value)

        def want_exc(exc: BaseException | None) -> bool:
            return got["kind"] == "raise" and exc is not None and any(exc is l for l in flatten_exc(got["exc"]))

        ok = True
        expect = ""
        if kind == "run_result":
            v = RESULTS[ending["value"]]
            if v is None or (isinstance(v, int) and v == 0):
                ok, expect = got["kind"] == "return", "a plain return (status 0)"
            elif isinstance(v, int) and 1 <= v <= 127:
                ok, expect = want_exit(v), f"SystemExit({v})"
            else:
                ok, expect = want_exit(1), "SystemExit(1) for an invalid run() result"
                if ok and len(got["warnings"]) != 1:
                    self.disc("invalid-result-warning", f"run() returned {v!r}: {len(got['warnings'])} warnings were issued, expected exactly one")
            if not ok:
                self.disc(f"outcome:run-result", f"run() returned {v!r}: run_application {describe()}, expected {expect}")
        elif kind == "run_raises":
            if not want_exc(self.run_exc):
                self.disc("outcome:run-raises", f"run() raised {self.run_exc!r}: run_application {describe()}, expected the original exception")
        elif kind in ("startup_fail", "timeout", "signal_start", "signal_service"):
            if not want_exit(1):
                self.disc(f"outcome:{kind}", f"{kind} ({ {k: v for k, v in ending.items() if k != 'kind'} }): run_application {describe()}, expected SystemExit(1)")
            if self.run_called:
                self.disc("run-called-after-failed-startup", f"{kind}: the CLI component's run() was called")
            if kind == "timeout" and self.stall_ended_at is not None:
                T = 10 if case["start_timeout"] == "default" else case["start_timeout"]
                if abs(self.stall_ended_at - T) > 1e-6:
                    self.disc("timeout-time", f"start_timeout={case['start_timeout']}: the stalled startup was abandoned after "
                              f"{self.stall_ended_at} virtual seconds, expected {T}")
        elif kind == "signal_after":
            if got["kind"] != "return":
                self.disc("outcome:signal-after-startup", f"{ending['sig']} after startup of a non-CLI application: run_application {describe()}, expected a clean return")
        elif kind == "crash_after":
            if not want_exc(self.crash_exc):
                self.disc("outcome:crash-after-startup", f"a service task crashed after startup: run_application {describe()}, expected the original exception")
        elif kind == "crash_during":
            if not (want_exit(1) or want_exc(self.crash_exc)):
                self.disc("outcome:crash-during-startup", f"a service task crashed during startup: run_application {describe()}, expected SystemExit(1) or the original exception")
        # ---- teardown: every registered callback once, in reverse order ------------------------
        ran = [m for m in self.ran if m in self.registered or not m.startswith("svc:")]
        registered = list(self.registered)
        if self.crash_mark is not None:
            # a crash cancels the root task group: service tasks end right then (their finalizers,
            # which are the registered callbacks, still run in order but only find them finished)
            svc_ran = sorted(m for m in ran if m.startswith("svc:"))
            svc_reg = sorted(m for m in registered if m.startswith("svc:"))
            if svc_ran != svc_reg:
                self.disc("service-task-not-ended", f"ending {kind}: service tasks ended {svc_ran}, started {svc_reg}")
            ran = [m for m in ran if not m.startswith("svc:")]
            registered = [m for m in registered if not m.startswith("svc:")]
        if ran != list(reversed(registered)):
            missing = [m for m in self.registered if m not in ran]
            dup = sorted({m for m in ran if ran.count(m) > 1})
            b = "teardown-missing" if missing else ("teardown-twice" if dup else "teardown-order")
            self.disc(b, f"ending {kind}: teardown callbacks ran {ran}; registered (in order) {self.registered}; run_application {describe()}")
        if self.stray:
            self.disc("signal-not-handled", f"signal(s) {self.stray} reached the process-level handler: the application had no handler installed")
        labs = {case["backend"], "ending=" + kind, "cli" if case["cli"] else "non-cli", f"components={len(case['comps'])}",
                f"registered={min(len(self.registered), 6)}"}
        out.labels = sorted(labs)
        n_with = sum(1 for c in case["comps"] if any(s["op"] in ("td", "svc") for ph in ("prepare", "start") for s in (c[ph] or [])))
        out.nontrivial = n_with >= 2 and not (kind == "run_result" and RESULTS[ending["value"]] in (None, 0))
        out.trace = {"registered": self.registered, "ran": self.ran, "got": describe(), "trace": self.trace}
        return out


def run_case(case: dict, prop: str) -> Outcome:
    it = Interp(case)
    try:
        it.execute()
    except Deadlock as exc:
        it.disc("deadlock", f"run_application hung (ending {case['ending']['kind']}): {exc}")
        return it.out
    if it.harness_exc is not None:
        raise HarnessError(f"harness exception inside the run: {short_exc(it.harness_exc)}") from it.harness_exc
    return it.judge()


def shrink_candidates(case: dict):
    comps = case["comps"]
    special = {"fail", "signal", "stall", "svc_signal", "svc_crash"}
    for i, c in enumerate(comps):
        for ph in ("prepare", "start"):
            if c[ph] is None:
                continue
            for si, st_ in enumerate(c[ph]):
                if st_["op"] in special:
                    continue
                cc = copy.deepcopy(case)
                del cc["comps"][i][ph][si]
                yield cc
    for i in range(len(comps) - 1, 0, -1):
        if any(x["parent"] == i for x in comps):
            continue
        if case["ending"].get("comp") == i:
            continue
        if any(s["op"] in special for ph in ("prepare", "start") for s in (comps[i][ph] or [])):
            continue
        cc = copy.deepcopy(case)
        del cc["comps"][i]
        for x in cc["comps"]:
            if x["parent"] is not None and x["parent"] > i:
                x["parent"] -= 1
        if cc["ending"].get("comp", -1) > i:
            cc["ending"]["comp"] -= 1
        yield cc
    for key, val in (("backend", "asyncio"), ("sched_seed", 0)):
        if case.get(key) != val:
            cc = copy.deepcopy(case)
            cc[key] = val
            yield cc
