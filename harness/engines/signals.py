"""E5 - signals engine: C10 (delivery) and C11 (channels).

case = {backend, sched_seed, mode: "seq"|"conc",
        layout: {classes: [{base, sigs: {attr: evt}, owner}], instances: [{cls, val}]},
        first_access: [[inst, attr], ...], late_drop: bool,
        ops: [...]}

Sequential mode is an exact model: one task drives everything, ``consume`` reads exactly as
many events as the per-subscriber bounded FIFO of the model holds.  Concurrent mode
(consumer tasks with generated pacing) uses a validity oracle, see ``ConcInterp``.
"""

from __future__ import annotations

import copy
import gc
import time as _time
import warnings
import weakref
from dataclasses import dataclass
from typing import Any

import anyio
from hypothesis import strategies as st

from harness.core import HarnessError, Outcome, flatten_exc, innermost_is_harness, short_exc
from harness.gen import BACKEND, SEED, D
from harness.vloop import Deadlock, checkpoints, run_virtual, vsleep

ATTRS = ["alpha", "beta", "gamma", "delta"]
FILTERS = ["none", "even", "lt3", "never"]
SENTINEL = -1
PROP_CLASSES = {"C10": {"delivery"}, "C11": {"channel"}}


def _event_classes() -> list[type]:
    from asphalt.core import Event

    class E0(Event):
        def __init__(self, k: int) -> None:
            self.k = k

        def __repr__(self) -> str:
            return f"{type(self).__name__}({self.k})"

    class E1(Event):
        def __init__(self, k: int) -> None:
            self.k = k

        def __repr__(self) -> str:
            return f"E1({self.k})"

    class E2(E0):
        pass

    return [E0, E1, E2]


class _FilterObject:
    def __init__(self, fn: Any) -> None:
        self.fn = fn

    def __call__(self, ev: Any) -> bool:
        return self.fn(ev)


class _EmptyFilterObject(_FilterObject):
    def __len__(self) -> int:  # a callable whose truth value is False (a rule set that is still empty)
        return 0


def _passes(fid: str, k: int) -> bool:
    if k == SENTINEL:
        return True
    if fid == "none":
        return True
    if fid == "even":
        return k % 2 == 0
    if fid == "lt3":
        return k < 3
    return False


def effective_sigs(layout: dict, cls: int) -> dict[str, int]:
    c = layout["classes"][cls]
    sigs = dict(effective_sigs(layout, c["base"])) if c.get("base") is not None else {}
    sigs.update(c["sigs"])
    return sigs


def channels_of(layout: dict) -> list[tuple[int, str]]:
    out = []
    for i, inst in enumerate(layout["instances"]):
        for attr in sorted(effective_sigs(layout, inst["cls"])):
            out.append((i, attr))
    return out


def build(layout: dict, evs: list[type]) -> tuple[list[type], list[Any]]:
    from asphalt.core import Signal

    classes: list[type] = []
    for ci, c in enumerate(layout["classes"]):
        ns: dict[str, Any] = {attr: Signal(evs[e]) for attr, e in c["sigs"].items()}
        bases = (classes[c["base"]],) if c.get("base") is not None else ()
        if c.get("owner") == "frozen" and not bases:
            ns["__annotations__"] = {"val": int}
            cls = dataclass(frozen=True)(type(f"Owner{ci}", (), ns))
        else:
            if not bases:
                def __init__(self: Any, val: int = 0) -> None:
                    self.val = val
                ns["__init__"] = __init__
                if c.get("owner") == "falsy":
                    ns["__len__"] = lambda self: 0
            cls = type(f"Owner{ci}", bases, ns)
        classes.append(cls)
    # instances declared as copies of another one are created later (copy.copy, after the
    # original's signals have been touched)
    insts = [None if i.get("copy_of") is not None else classes[i["cls"]](i.get("val", 0)) for i in layout["instances"]]
    return classes, insts


def make_copies(layout: dict, insts: list, upto: int | None = None) -> None:
    import copy as _copy

    for k, spec in enumerate(layout["instances"]):
        if insts[k] is None and spec.get("copy_of") is not None and (upto is None or k == upto):
            src = insts[spec["copy_of"]]
            if src is None:
                make_copies(layout, insts, spec["copy_of"])
                src = insts[spec["copy_of"]]
            insts[k] = _copy.copy(src)


# =====================================================================================
# generation
# =====================================================================================


def _layout(d: D, prop: str) -> dict:
    ncls = d.int(1, 3)
    classes: list[dict] = []
    for ci in range(ncls):
        base = None
        if ci > 0 and d.pct(40):
            base = d.int(0, ci - 1)
        nsig = d.weighted([(1, 25), (2, 40), (3, 25), (4, 10)]) if base is None else d.int(0, 2)
        attrs = []
        for _ in range(nsig):
            a = d.pick(ATTRS)
            if a not in attrs:
                attrs.append(a)
        sigs = {a: d.int(0, 2) for a in attrs}
        owner = "plain"
        if base is None and d.pct(15 if prop == "C11" else 10):
            owner = "frozen"  # instances with equal fields compare (and hash) equal
        elif base is None and d.pct(10):
            owner = "falsy"  # instances whose truth value is False (an empty collection-like event source)
        elif base is not None:
            owner = classes[base]["owner"]
        classes.append({"base": base, "sigs": sigs, "owner": owner})
    ninst = d.int(1, 3)
    instances = []
    for k in range(ninst):
        ci = d.int(0, ncls - 1)
        if k > 0 and d.pct(20 if prop == "C11" else 8):
            j = d.int(0, k - 1)
            instances.append({"cls": instances[j]["cls"], "val": instances[j]["val"], "copy_of": j})
        else:
            instances.append({"cls": ci, "val": d.int(0, 1)})
    lay = {"classes": classes, "instances": instances}
    if not channels_of(lay):
        classes[instances[0]["cls"]]["sigs"]["alpha"] = 0
    return lay


class _MStream:
    def __init__(self, sid: int, chans: list, fid: str, maxq: int) -> None:
        self.sid, self.chans, self.fid, self.maxq = sid, chans, fid, maxq
        self.fifo: list[tuple[int, int]] = []  # (event serial, payload)
        self.active = True
        self.closed_iter = False


@st.composite
def cases(draw: Any, prop: str, tier: str) -> dict:
    d = D(draw)
    lay = _layout(d, prop)
    chans = channels_of(lay)
    order = list(chans)
    # a permutation of first accesses
    perm = []
    while order:
        perm.append(order.pop(d.int(0, len(order) - 1)))
    mode = "seq"
    if prop == "C10" and d.pct(40):
        mode = "conc"
    case: dict[str, Any] = {"backend": draw(BACKEND), "sched_seed": draw(SEED), "mode": mode, "layout": lay,
                            "first_access": [list(c) for c in perm], "late_drop": d.pct(30)}
    if mode == "conc":
        case["ops"] = _conc_ops(d, lay, chans, tier)
        return case
    nops = d.int(3, 25 if tier == "quick" else 45)
    ops: list[dict] = []
    streams: dict[int, _MStream] = {}
    next_sid = 0
    used_sizes: set[int] = set()
    payload = 0
    dead = [0]
    for _ in range(nops):
        live = [s for s in streams.values() if s.active]
        w = {"open": 22 if len(live) < 4 else 4, "dispatch": 38, "consume": 14 if live else 0, "leave": 8 if live else 0,
             "aclose": 3 if live and prop == "C10" else 0, "wrong": 5 if prop == "C11" else 2, "crowd": 1,
             "classuse": 6 if prop == "C11" else 1, "wait": 6 if prop == "C10" else 2, "burst": 8 if prop == "C10" else 0,
             "reincarnate": 5}
        kind = d.weighted(list(w.items()))
        if kind == "open":
            k = d.weighted([(1, 55), (2, 30), (3, 15)])
            cs = []
            for _ in range(k):
                c = d.pick(chans)
                if c not in cs:
                    cs.append(c)
            fid = d.weighted([("none", 60), ("even", 18), ("lt3", 14), ("never", 8)])
            if prop == "C10" and fid == "none" and d.pct(60):
                # small, pairwise distinct queue sizes so that each warning names its subscriber
                cand = [q for q in (0, 1, 2, 3, 4, 5, 6, 7) if q not in used_sizes]
                maxq = d.pick(cand) if cand else 900 + next_sid
            else:
                maxq = 900 + next_sid  # never overflows
            used_sizes.add(maxq)
            ops.append({"op": "open", "sid": next_sid, "chans": [list(c) for c in cs], "filter": fid, "maxq": maxq,
                        "api": "method" if len(cs) == 1 and d.bool() else "func"})
            streams[next_sid] = _MStream(next_sid, [tuple(c) for c in cs], fid, maxq)
            next_sid += 1
        elif kind in ("dispatch", "burst"):
            n = 1 if kind == "dispatch" else d.int(2, 6)
            long_burst = kind == "burst" and d.pct(8)
            one_chan = None
            if long_burst:
                # a long burst without a single checkpoint, on one channel: every event but the last fails
                # every filter in use (k=5), the last passes them all (k=0)
                n = d.pick([18, 24, 40, 52, 60])
                one_chan = d.pick(chans)
            for bi in range(n):
                c = one_chan or d.pick(chans)
                sub = d.pct(25)  # dispatch an instance of a subclass of the declared event class
                kval = payload % 7 if not long_burst else (0 if bi == n - 1 else 5)
                ops.append({"op": "dispatch", "ch": list(c), "k": kval, "sub": sub})
                if kind == "burst" and bi < n - 1:
                    ops[-1]["nocp"] = True  # the next dispatch follows without a checkpoint in between
                for s in live:
                    if c in s.chans and len(s.fifo) < s.maxq:
                        s.fifo.append((0, kval))
                payload += 1
        elif kind == "consume":
            s = d.pick(live)
            if s.closed_iter:
                continue
            avail = sum(1 for _, k in s.fifo if _passes(s.fid, k))
            if avail == 0:
                continue
            n = d.int(1, avail)
            ops.append({"op": "consume", "sid": s.sid, "n": n})
            got = 0
            while got < n:
                _, k = s.fifo.pop(0)
                if _passes(s.fid, k):
                    got += 1
        elif kind == "leave":
            s = d.pick(live)
            ops.append({"op": "leave", "sid": s.sid})
            s.active = False
            # the leave protocol dispatches a sentinel on the stream's first live channel
            alive = [tuple(c) for c in s.chans if c[0] >= 0]
            if s.maxq >= 1 and not s.closed_iter and alive:
                for o in live:
                    if o is not s and alive[0] in [tuple(c) for c in o.chans] and len(o.fifo) < o.maxq:
                        o.fifo.append((0, SENTINEL))
        elif kind == "aclose":
            s = d.pick(live)
            if not s.closed_iter:
                ops.append({"op": "aclose", "sid": s.sid})
                s.closed_iter = True
        elif kind == "reincarnate":
            # the owner dies (its subscribers stay) and a new instance takes its place - very
            # likely at the same address
            i = d.int(0, len(lay["instances"]) - 1)
            ops.append({"op": "reincarnate", "inst": i})
            dead[0] += 1
            for s in streams.values():
                s.chans = [((-dead[0], c[1]) if c[0] == i else c) for c in s.chans]
        elif kind == "crowd":
            # one stream over the signals of dozens of short-lived owners (far more owners than the layout has)
            n = d.pick([20, 65, 70, 100])
            ops.append({"op": "crowd", "n": n, "picks": [d.int(0, n - 1) for _ in range(d.int(1, 5))]})
        elif kind == "wrong":
            ops.append({"op": "wrong", "ch": list(d.pick(chans))})
        elif kind == "classuse":
            ci = d.int(0, len(lay["classes"]) - 1)
            sigs = sorted(effective_sigs(lay, ci))
            if sigs:
                how = d.pick(["dispatch", "stream", "wait", "stream_func", "stream_mixed", "wait_mixed"])
                o = {"op": "classuse", "cls": ci, "attr": d.pick(sigs), "how": how}
                if how.endswith("_mixed"):
                    o["bound"] = list(d.pick(chans))  # a bound signal listed BEFORE the unbound one
                ops.append(o)
                if how.endswith("_mixed"):
                    # the failed call must leave nothing behind on the bound signal
                    c = tuple(o["bound"])
                    ops.append({"op": "dispatch", "ch": list(c), "k": payload % 7, "sub": False})
                    for s in live:
                        if c in s.chans and len(s.fifo) < s.maxq:
                            s.fifo.append((0, payload % 7))
                    payload += 1
        elif kind == "wait":
            k = d.int(1, 2)
            cs = []
            for _ in range(k):
                c = d.pick(chans)
                if c not in cs:
                    cs.append(c)
            ops.append({"op": "wait", "chans": [list(c) for c in cs], "filter": d.pick(["none", "even", "lt3"]),
                        "api": "method" if len(cs) == 1 and d.bool() else "func", "cp": d.int(1, 4)})
            if ops[-1]["filter"] != "none" and d.pct(20):
                # the waiter is at once followed by a long burst on one of its channels in which only the LAST event
                # passes its filter: "the first event passing its filter that is dispatched after the call begins"
                n = d.pick([18, 40, 52, 60])
                c = cs[0]
                ops[-1]["cp"] = 4
                for bi in range(n):
                    kval = 0 if bi == n - 1 else 5
                    ops.append({"op": "dispatch", "ch": list(c), "k": kval, "sub": False, **({"nocp": True} if bi < n - 1 else {})})
                    for s in live:
                        if c in s.chans and len(s.fifo) < s.maxq:
                            s.fifo.append((0, kval))
                    payload += 1
    case["ops"] = ops
    return case


def _conc_ops(d: D, lay: dict, chans: list, tier: str) -> dict:
    """Concurrent mode: consumers and dispatchers are tasks with generated pacing."""
    ncons = d.int(1, 3)
    sizes = [0, 1, 2, 3, 4, 5, 6]
    consumers = []
    for i in range(ncons):
        k = d.weighted([(1, 60), (2, 40)])
        cs = []
        for _ in range(k):
            c = d.pick(chans)
            if c not in cs:
                cs.append(c)
        q = sizes.pop(d.int(0, len(sizes) - 1))
        consumers.append({"chans": [list(c) for c in cs], "maxq": q, "filter": d.weighted([("none", 70), ("even", 30)]),
                          "start": d.int(0, 2), "pace_cp": d.int(0, 2), "pace_sleep": d.weighted([(0, 60), (1, 30), (2, 10)]),
                          "take": d.weighted([(None, 50), (d.int(0, 6), 50)]),
                          "end": d.pick(["leave", "cancel"])})
    ndisp = d.int(1, 2)
    dispatchers = []
    payload = 0
    for _ in range(ndisp):
        steps = []
        for _ in range(d.int(1, 8 if tier == "quick" else 14)):
            steps.append({"ch": list(d.pick(chans)), "k": payload % 7, "cp": d.int(0, 2),
                          "sleep": d.weighted([(0, 65), (1, 25), (2, 10)])})
            payload += 1
        dispatchers.append({"start": d.int(0, 2), "steps": steps})
    return {"consumers": consumers, "dispatchers": dispatchers}


def strategy(prop: str, tier: str) -> st.SearchStrategy:
    return cases(prop, tier)


# =====================================================================================
# sequential interpreter (exact model)
# =====================================================================================


class SeqInterp:
    def __init__(self, case: dict, prop: str) -> None:
        self.case = case
        self.prop = prop
        self.out = Outcome()
        self.trace: list[Any] = []
        self.diverged = False
        self.harness_exc: BaseException | None = None
        self.labels: set[str] = set()
        self.n_overflow = 0
        self.left_while_dispatching = False
        self.multi_sub_channel = False
        self.n_dispatch_channels: set[tuple] = set()

    def disc(self, cls: str, bucket: str, msg: str) -> None:
        if cls in PROP_CLASSES[self.prop]:
            self.out.add(cls, f"{cls}:{bucket}", msg)

    def both(self, bucket: str, msg: str) -> None:
        self.disc("delivery", bucket, msg)
        self.disc("channel", bucket, msg)

    async def main(self) -> None:
        from asphalt.core import SignalQueueFull, UnboundSignal, stream_events, wait_event

        case = self.case
        lay = case["layout"]
        evs = _event_classes()
        classes, insts = build(lay, evs)
        chans = channels_of(lay)
        sig_evt = {(i, a): effective_sigs(lay, lay["instances"][i]["cls"])[a] for i, a in chans}

        # ---- first accesses in the generated order; identity and distinctness ----------
        bound: dict[tuple, Any] = {}
        for i, a in case["first_access"]:
            if insts[i] is None:
                make_copies(lay, insts, i)
                self.labels.add("copied-owner")
            try:
                bound[(i, a)] = getattr(insts[i], a)
            except Exception as exc:
                self.disc("channel", "access-raises", f"accessing signal {a!r} of instance {i} raised {short_exc(exc)}")
                return
        for (i, a), sig in bound.items():
            again = getattr(insts[i], a)
            if again is not sig:
                self.disc("channel", "not-stable", f"instance {i}.{a} yields a different bound signal on second access")
        keys = list(bound)
        for x in range(len(keys)):
            for y in range(x + 1, len(keys)):
                if bound[keys[x]] is bound[keys[y]]:
                    (i1, a1), (i2, a2) = keys[x], keys[y]
                    if i1 == i2:
                        kind = "attributes-share-signal"
                    elif insts[i1] == insts[i2]:
                        kind = "equal-instances-share-signal"
                    else:
                        kind = "instances-share-signal"
                    self.both(kind, f"bound signal of instance {i1}.{a1} IS the bound signal of instance {i2}.{a2}")
                    self.diverged = True
                    break
            if self.diverged:
                break

        make_copies(lay, insts)
        streams: dict[int, dict] = {}
        serial = [0]
        waiters: list[dict] = []
        live_events: dict[int, Any] = {}
        retired: list[Any] = []  # bound signals of owners that are gone (users may keep them)
        dead = [0]

        def model_dispatch(ch: tuple, ev_serial: int, k: int) -> list[int]:
            """Apply a dispatch to the per-subscriber FIFOs; returns queue sizes that overflow."""
            overflow = []
            for s in streams.values():
                if s["active"] and ch in s["chans"]:
                    s["ever"] = True
                    if len(s["fifo"]) < s["maxq"]:
                        s["fifo"].append((ev_serial, k))
                    else:
                        overflow.append(s["maxq"])
            for wt in waiters:
                if wt["active"] and ch in wt["chans"] and wt["expect"] is None and _passes(wt["filter"], k):
                    wt["expect"] = ev_serial
            return overflow

        def do_dispatch(ch: tuple, k: int, sub: bool) -> None:
            i, a = ch
            e_idx = sig_evt[ch]
            cls = evs[2] if (sub and e_idx == 0) else evs[e_idx]
            ev = cls(k)
            serial[0] += 1
            ev_serial = serial[0]
            live_events[ev_serial] = ev
            ev._verif_serial = ev_serial  # type: ignore[attr-defined]
            self.n_dispatch_channels.add(ch)
            subs = [s for s in streams.values() if s["active"] and ch in s["chans"]]
            if len(subs) >= 2 and len({(s["maxq"], s["filter"]) for s in subs}) >= 2:
                self.multi_sub_channel = True
            if any(not s["active"] for s in streams.values()):
                self.left_while_dispatching = True
            expected_overflow = sorted(model_dispatch(ch, ev_serial, k))
            t0 = _time.time()
            with warnings.catch_warnings(record=True) as wlist:
                warnings.simplefilter("always")
                try:
                    ret = getattr(insts[i], a).dispatch(ev)
                except Exception as exc:
                    self.both("dispatch-raises", f"dispatch on instance {i}.{a} raised {short_exc(exc)} "
                              f"(subscribers: {[(s['sid'], s['active'], s['closed_iter']) for s in streams.values()]})")
                    self.diverged = True
                    return
            t1 = _time.time()
            if ret is not None:
                self.disc("delivery", "dispatch-returns", f"dispatch returned {ret!r}")
            got_overflow = []
            for wm in wlist:
                if issubclass(wm.category, SignalQueueFull):
                    txt = str(wm.message)
                    try:
                        got_overflow.append(int(txt.split("(")[1].split(")")[0]))
                    except Exception:
                        got_overflow.append(-1)
            if expected_overflow:
                self.n_overflow += 1
            if sorted(got_overflow) != expected_overflow:
                self.disc("delivery", "overflow-warnings",
                          f"dispatch #{ev_serial} on {i}.{a}: SignalQueueFull warnings for queue sizes {sorted(got_overflow)}, "
                          f"model says {expected_overflow}")
            if getattr(ev, "source", None) is not insts[i]:
                self.both("stamp-source", f"event dispatched on instance {i}.{a} has source {getattr(ev, 'source', None)!r}")
            if getattr(ev, "topic", None) != a:
                self.both("stamp-topic", f"event dispatched on instance {i}.{a} has topic {getattr(ev, 'topic', None)!r}")
            tm = getattr(ev, "time", None)
            if not isinstance(tm, float) or not (t0 - 5 <= tm <= t1 + 5):
                self.disc("delivery", "stamp-time", f"event time {tm!r} not a float near {t0}")
            self.trace.append(["dispatch", list(ch), k, ev_serial, got_overflow])

        async def read(s: dict, n: int, what: str) -> bool:
            """Read n passing events from stream s and compare with the model's FIFO."""
            for _ in range(n):
                exp = None
                while s["fifo"]:
                    es, k = s["fifo"].pop(0)
                    if _passes(s["filter"], k):
                        exp = (es, k)
                        break
                if exp is None:
                    raise HarnessError("model FIFO has no passing event to read")
                try:
                    with anyio.fail_after(1000):
                        ev = await s["it"].__anext__()
                except TimeoutError:
                    self.both("event-missing", f"{what}: stream {s['sid']} (channels {s['chans']}, filter {s['filter']}, "
                              f"queue {s['maxq']}) did not yield event #{exp[0]} that the model says it holds")
                    self.diverged = True
                    return False
                except Exception as exc:
                    self.both("stream-raises", f"{what}: stream {s['sid']} raised {short_exc(exc)}")
                    self.diverged = True
                    return False
                got = getattr(ev, "_verif_serial", None)
                if got != exp[0]:
                    src = None
                    for (ci, ca), sg in bound.items():
                        if ev.source is insts[ci] and getattr(ev, "topic", None) == ca:
                            src = (ci, ca)
                    foreign = src is not None and src not in s["chans"]
                    b = "foreign-event" if foreign else "wrong-event"
                    self.both(b, f"{what}: stream {s['sid']} on channels {s['chans']} yielded event #{got} "
                              f"(dispatched on {src}), model expects #{exp[0]}")
                    self.diverged = True
                    return False
                if type(ev) not in (evs[sig_evt[c]] for c in s["chans"]) and not any(
                        isinstance(ev, evs[sig_evt[c]]) for c in s["chans"]):
                    self.both("wrong-class-delivered", f"stream {s['sid']} yielded {ev!r}")
            return True

        async def leave_stream(s: dict) -> None:
            # drain what the model says is buffered, then prove there is nothing else
            if not s["closed_iter"]:
                n = sum(1 for _, k in s["fifo"] if _passes(s["filter"], k))
                if not await read(s, n, "leave"):
                    await _force_close(s)
                    return
                s["fifo"].clear()
                alive = [c for c in s["chans"] if c[0] >= 0]
                if s["maxq"] >= 1 and alive:
                    do_dispatch(alive[0], SENTINEL, False)
                    if self.diverged or not await read(s, 1, "leave-sentinel"):
                        await _force_close(s)
                        return
            s["active"] = False
            try:
                await s["cm"].__aexit__(None, None, None)
            except Exception as exc:
                self.both("leave-raises", f"leaving stream {s['sid']} raised {short_exc(exc)}")
                self.diverged = True

        async def _force_close(s: dict) -> None:
            s["active"] = False
            try:
                await s["cm"].__aexit__(None, None, None)
            except Exception:
                pass

        async with anyio.create_task_group() as tg:
            for op in case["ops"]:
                if self.diverged:
                    break
                kind = op["op"]
                if kind == "open":
                    cs = [tuple(c) for c in op["chans"]]
                    sigs = [getattr(insts[i], a) for i, a in cs]
                    flt = None if op["filter"] == "none" else (lambda ev, f=op["filter"]: _passes(f, ev.k))
                    if flt is not None and op["sid"] % 2:
                        # a callable object as filter - every other one with a False truth value
                        flt = _EmptyFilterObject(flt) if op["sid"] % 4 == 3 else _FilterObject(flt)
                    try:
                        if op["api"] == "method":
                            cm = sigs[0].stream_events(flt, max_queue_size=op["maxq"])
                        else:
                            cm = stream_events(sigs, flt, max_queue_size=op["maxq"])
                        it = await cm.__aenter__()
                    except Exception as exc:
                        self.both("open-raises", f"stream_events on {cs} raised {short_exc(exc)}")
                        self.diverged = True
                        break
                    streams[op["sid"]] = {"sid": op["sid"], "chans": cs, "filter": op["filter"], "maxq": op["maxq"],
                                          "fifo": [], "active": True, "closed_iter": False, "cm": cm, "it": it, "ever": False}
                    self.trace.append(["open", op["sid"], [list(c) for c in cs], op["filter"], op["maxq"]])
                elif kind == "dispatch":
                    do_dispatch(tuple(op["ch"]), op["k"], op.get("sub", False))
                    if waiters and not op.get("nocp"):
                        await checkpoints(3)
                elif kind == "consume":
                    s = streams[op["sid"]]
                    await read(s, op["n"], "consume")
                    self.trace.append(["consume", op["sid"], op["n"]])
                elif kind == "leave":
                    await leave_stream(streams[op["sid"]])
                    self.trace.append(["leave", op["sid"]])
                elif kind == "aclose":
                    s = streams[op["sid"]]
                    s["closed_iter"] = True
                    try:
                        await s["it"].aclose()
                    except Exception as exc:
                        self.disc("delivery", "aclose-raises", f"closing the iterator of stream {s['sid']} raised {short_exc(exc)}")
                    self.trace.append(["aclose", op["sid"]])
                elif kind == "reincarnate":
                    i = op["inst"]
                    old_id = id(insts[i])
                    dead[0] += 1
                    for c in chans:
                        if c[0] == i:
                            sig_evt[(-dead[0], c[1])] = sig_evt[c]
                    for st_ in streams.values():
                        st_["chans"] = [((-dead[0], c[1]) if c[0] == i else c) for c in st_["chans"]]
                    for wt in waiters:
                        wt["chans"] = [((-dead[0], c[1]) if c[0] == i else c) for c in wt["chans"]]
                    for key in [k for k in bound if k[0] == i]:
                        retired.append(bound.pop(key))
                    for es in [es for es, ev in live_events.items() if getattr(ev, "source", None) is insts[i]]:
                        del live_events[es]
                    ref = weakref.ref(insts[i])
                    spec = lay["instances"][i]
                    insts[i] = None
                    # (events still buffered in - or last yielded by - a live stream reference their
                    # source, so the old owner may legitimately live on; collectability is checked
                    # at the end of the case)
                    if ref() is None:
                        self.labels.add("owner-collected-mid-history")
                    insts[i] = classes[spec["cls"]](spec.get("val", 0))
                    if id(insts[i]) == old_id:
                        self.labels.add("address-reused")
                    for (ci, ca) in [c for c in chans if c[0] == i]:
                        sig = getattr(insts[i], ca)
                        if any(sig is r for r in retired) or any(sig is b for b in bound.values()):
                            self.both("stale-bound-signal-reused", f"a NEW owner instance (slot {i}) got the bound signal {ca!r} of a dead or "
                                      f"other owner (address reused: {id(insts[i]) == old_id})")
                            self.diverged = True
                            break
                        bound[(ci, ca)] = sig
                    self.trace.append(["reincarnate", i, id(insts[i]) == old_id])
                elif kind == "crowd":
                    from asphalt.core import Signal as _Signal

                    class CrowdMember:
                        sig = _Signal(evs[0])

                    owners = [CrowdMember() for _ in range(op["n"])]
                    try:
                        async with stream_events([o.sig for o in owners], max_queue_size=1000) as cst:
                            for j in op["picks"]:
                                owners[j].sig.dispatch(evs[0](j % 7))
                            got_src = []
                            with anyio.move_on_after(2):
                                for _ in op["picks"]:
                                    got_src.append((await cst.__anext__()).source)
                    except Exception as exc:
                        self.disc("delivery", "crowd-raised", f"a stream over the signals of {op['n']} owners raised {short_exc(exc)}")
                        got_src = None
                    if got_src is not None and [owners.index(x) if x in owners else None for x in got_src] != list(op["picks"]):
                        self.both("crowd-lost", f"one stream over the same signal of {op['n']} owner instances: events dispatched on owners "
                                  f"{op['picks']} arrived from {[owners.index(x) if x in owners else None for x in got_src]}")
                    del owners
                    self.trace.append(["crowd", op["n"]])
                elif kind == "wrong":
                    ch = tuple(op["ch"])
                    e_idx = sig_evt[ch]
                    wrong_cls = evs[1] if e_idx != 1 else evs[0]
                    before = {sid: len(s["fifo"]) for sid, s in streams.items()}
                    try:
                        getattr(insts[ch[0]], ch[1]).dispatch(wrong_cls(0))
                    except TypeError:
                        pass
                    except Exception as exc:
                        self.disc("channel", "wrong-class-other-exception",
                                  f"dispatching {wrong_cls.__name__} on a Signal({evs[e_idx].__name__}) raised {short_exc(exc)}")
                    else:
                        self.disc("channel", "wrong-class-accepted",
                                  f"dispatching {wrong_cls.__name__} on instance {ch[0]}.{ch[1]} declared Signal({evs[e_idx].__name__}) "
                                  f"was accepted")
                        self.diverged = True
                    self.trace.append(["wrong", list(ch)])
                    del before
                elif kind == "classuse":
                    cls = classes[op["cls"]]
                    declared = getattr(cls, op["attr"])
                    try:
                        if op["how"] == "dispatch":
                            declared.dispatch(evs[0](0))
                        elif op["how"] == "stream":
                            async with declared.stream_events():
                                pass
                        elif op["how"] == "stream_func":
                            async with stream_events([declared]):
                                pass
                        elif op["how"] == "stream_mixed":
                            b = tuple(op["bound"])
                            async with stream_events([getattr(insts[b[0]], b[1]), declared]):
                                pass
                        elif op["how"] == "wait_mixed":
                            b = tuple(op["bound"])
                            with anyio.move_on_after(5):
                                await wait_event([getattr(insts[b[0]], b[1]), declared])
                        else:
                            with anyio.move_on_after(5):
                                await declared.wait_event()
                    except UnboundSignal:
                        pass
                    except Exception as exc:
                        self.disc("channel", "class-level-other-exception", f"class-level {op['how']} raised {short_exc(exc)}")
                    else:
                        self.disc("channel", "class-level-accepted", f"class-level {op['how']} on {cls.__name__}.{op['attr']} did not raise UnboundSignal")
                    self.trace.append(["classuse", op["cls"], op["attr"], op["how"]])
                elif kind == "wait":
                    cs = [tuple(c) for c in op["chans"]]
                    sigs = [getattr(insts[i], a) for i, a in cs]
                    flt = None if op["filter"] == "none" else (lambda ev, f=op["filter"]: _passes(f, ev.k))
                    wt = {"chans": cs, "filter": op["filter"], "active": False, "expect": None, "got": None, "done": False, "err": None}

                    async def waiter(wt: dict = wt, sigs: list = sigs, flt: Any = flt, api: str = op["api"]) -> None:
                        try:
                            wt["active"] = True  # the call begins now: subscription is synchronous up to the first await
                            ev = await (sigs[0].wait_event(flt) if api == "method" else wait_event(sigs, flt))
                            wt["got"] = getattr(ev, "_verif_serial", "?")
                        except BaseException as exc:
                            if not isinstance(exc, anyio.get_cancelled_exc_class()):
                                wt["err"] = exc
                            raise
                        finally:
                            wt["done"] = True

                    waiters.append(wt)
                    tg.start_soon(waiter)
                    await checkpoints(op.get("cp", 4))  # let it run up to (or only into) its wait
                    self.trace.append(["wait", [list(c) for c in cs], op["filter"]])
            # ---- end of history: waiters, streams ---------------------------------------
            # (a waiter that must skip n buffered events needs about n scheduling rounds: settle until
            # every waiter that has something to return has returned, within a generous bound)
            await checkpoints(4)
            for _ in range(400):
                if all(wt["done"] or wt["expect"] is None for wt in waiters):
                    break
                await checkpoints(1)
            for wt in waiters:
                if self.diverged:
                    break
                if wt["err"] is not None:
                    self.disc("delivery", "wait_event-raises", f"wait_event raised {short_exc(wt['err'])}")
                elif wt["expect"] is None:
                    if wt["done"]:
                        self.disc("delivery", "wait_event-false-wakeup", f"wait_event on {wt['chans']} returned #{wt['got']} although no "
                                  f"passing event was dispatched")
                elif not wt["done"]:
                    self.disc("delivery", "wait_event-missed", f"wait_event on {wt['chans']} (filter {wt['filter']}) is still waiting; "
                              f"event #{wt['expect']} should have ended it")
                elif wt["got"] != wt["expect"]:
                    self.disc("delivery", "wait_event-wrong-event", f"wait_event returned #{wt['got']}, first passing event was #{wt['expect']}")
            tg.cancel_scope.cancel()

        # leave remaining streams (unless kept for the drop test)
        keep_open: list[dict] = []

        def keepable(s: dict) -> bool:
            # a subscriber that was never sent an event (an event - buffered, or the last one
            # yielded by the stream's generator - references its source, which is the user's
            # reference, not the binding's) stays subscribed across the drop
            return bool(case.get("late_drop")) and not s["closed_iter"] and not s["ever"]

        progress = True
        while progress:  # leaving a stream dispatches a sentinel that may reach another one
            progress = False
            for s in list(streams.values()):
                if not s["active"] or (keepable(s) and not self.diverged):
                    continue
                progress = True
                if self.diverged:
                    await _force_close(s)
                else:
                    await leave_stream(s)
        keep_open = [s for s in streams.values() if s["active"]]

        # ---- the owner must be collectable ---------------------------------------------
        if not self.diverged:
            for s in streams.values():
                if s["active"] and s not in keep_open:
                    await _force_close(s)
            refs = [weakref.ref(o) for o in insts]
            n_inst = len(insts)
            live_events.clear()
            bound.clear()
            waiters.clear()
            for s in streams.values():
                s.pop("it", None) if not s["active"] else None
            sigs = None
            del insts, sigs
            if any(r() is not None for r in refs):
                gc.collect()  # reference cycles are fine; only then pay for a full collection
            alive = [i for i, r in enumerate(refs) if r() is not None]
            if alive:
                self.disc("channel", "owner-kept-alive", f"{len(alive)} of {n_inst} owner instances still alive after del + gc.collect() "
                          f"({'with' if keep_open else 'without'} live subscribers)")
            if keep_open:
                self.labels.add("drop-with-live-subscriber")
            for s in keep_open:
                await _force_close(s)
        else:
            for s in streams.values():
                if s["active"]:
                    await _force_close(s)

    def finish(self) -> Outcome:
        case = self.case
        out = self.out
        lay = case["layout"]
        chans = channels_of(lay)
        labs = set(self.labels) | {case["backend"], "mode=seq", f"channels={min(len(chans), 6)}", f"instances={len(lay['instances'])}"}
        max_attrs = max(len(effective_sigs(lay, i["cls"])) for i in lay["instances"])
        labs.add(f"max-signals-per-instance={max_attrs}")
        if any(c.get("base") is not None for c in lay["classes"]):
            labs.add("inheritance")
        if any(c.get("owner") == "frozen" for c in lay["classes"]):
            labs.add("frozen-dataclass-owner")
        if any(c.get("owner") == "falsy" for c in lay["classes"]):
            labs.add("falsy-owner")
        if self.n_overflow:
            labs.add("overflow")
        if self.left_while_dispatching:
            labs.add("dispatch-after-subscriber-left")
        if self.multi_sub_channel:
            labs.add("multi-subscriber-channel")
        if self.diverged:
            labs.add("diverged")
        out.labels = sorted(labs)
        if self.prop == "C10":
            out.nontrivial = self.multi_sub_channel and (self.n_overflow > 0 or self.left_while_dispatching)
        else:
            out.nontrivial = (max_attrs >= 2 or len(lay["instances"]) >= 2) and len(self.n_dispatch_channels) >= 2
        out.trace = self.trace[:80]
        return out

    def note_escape(self, exc: BaseException) -> None:
        for leaf in flatten_exc(exc):
            if isinstance(leaf, HarnessError) or (isinstance(leaf, Exception) and innermost_is_harness(leaf)):
                if self.harness_exc is None:
                    self.harness_exc = leaf


# =====================================================================================
# concurrent interpreter (validity oracle)
# =====================================================================================


class ConcInterp(SeqInterp):
    """Consumers and dispatchers are separate tasks.

    Oracle: for every (dispatch, subscribed stream) exactly one of {received by that consumer,
    SignalQueueFull warning attributed to it (queue sizes are pairwise distinct)}; a warning is
    legal only if the subscriber's backlog (delivered to it minus pulled) had reached its
    capacity, and mandatory beyond capacity + 1 (anyio hands an item directly to a receiver
    that is already waiting, which is the one slot of slack); received sequences are
    subsequences of the global dispatch order; dispatch never raises.
    """

    async def main(self) -> None:
        from asphalt.core import SignalQueueFull, stream_events

        case = self.case
        lay = case["layout"]
        evs = _event_classes()
        classes, insts = build(lay, evs)
        chans = channels_of(lay)
        sig_evt = {(i, a): effective_sigs(lay, lay["instances"][i]["cls"])[a] for i, a in chans}
        for i, a in chans:
            if insts[i] is not None:
                getattr(insts[i], a)
        make_copies(lay, insts)
        ops = case["ops"]
        cons = [dict(c, idx=i, chans=[tuple(x) for x in c["chans"]], subscribed=False, left=False, received=[], pulled=0,
                     warned=[], delivered=[]) for i, c in enumerate(ops["consumers"])]
        order: list[int] = []
        serial = [0]
        ev_chan: dict[int, tuple] = {}
        ev_k: dict[int, int] = {}
        all_done = anyio.Event()
        active_dispatchers = [len(ops["dispatchers"])]

        async def consumer(c: dict) -> None:
            await vsleep(c["start"])

            def flt(ev: Any) -> bool:
                c["pulled"] += 1  # the filter runs exactly once per event pulled from the queue
                return _passes(c["filter"], ev.k)

            sigs = [getattr(insts[i], a) for i, a in c["chans"]]
            try:
                with anyio.CancelScope() as scope:
                    c["scope"] = scope
                    async with stream_events(sigs, flt, max_queue_size=c["maxq"]) as it:
                        c["subscribed"] = True
                        try:
                            n = 0
                            while c["take"] is None or n < c["take"]:
                                await checkpoints(c["pace_cp"])
                                await vsleep(c["pace_sleep"])
                                ev = await it.__anext__()
                                if ev._verif_serial > 0:  # (the probes after the end are not part of the history)
                                    c["received"].append(ev._verif_serial)
                                    n += 1
                        finally:
                            c["subscribed"] = False
                            c["left"] = True
            except Exception as exc:
                if innermost_is_harness(exc):
                    self.harness_exc = self.harness_exc or exc
                else:
                    self.disc("delivery", "consumer-raises", f"consumer {c['idx']} raised {short_exc(exc)}")

        async def dispatcher(dsp: dict) -> None:
            await vsleep(dsp["start"])
            for st_ in dsp["steps"]:
                await checkpoints(st_["cp"])
                await vsleep(st_["sleep"])
                ch = tuple(st_["ch"])
                ev = evs[sig_evt[ch]](st_["k"])
                serial[0] += 1
                es = serial[0]
                ev._verif_serial = es  # type: ignore[attr-defined]
                order.append(es)
                ev_chan[es] = ch
                ev_k[es] = st_["k"]
                targets = [c for c in cons if c["subscribed"] and ch in c["chans"]]
                backlog = {c["idx"]: len(c["delivered"]) - c["pulled"] for c in targets}
                with warnings.catch_warnings(record=True) as wlist:
                    warnings.simplefilter("always")
                    try:
                        insts[ch[0]].__getattribute__(ch[1]).dispatch(ev)
                    except Exception as exc:
                        self.disc("delivery", "dispatch-raises", f"dispatch raised {short_exc(exc)} with consumers "
                                  f"{[(c['idx'], c['subscribed'], c['left']) for c in cons]}")
                        self.diverged = True
                        return
                sizes = []
                for wm in wlist:
                    if issubclass(wm.category, SignalQueueFull):
                        try:
                            sizes.append(int(str(wm.message).split("(")[1].split(")")[0]))
                        except Exception:
                            sizes.append(-1)
                for c in targets:
                    warned = c["maxq"] in sizes
                    if warned:
                        sizes.remove(c["maxq"])
                        c["warned"].append(es)
                        self.n_overflow += 1
                        if backlog[c["idx"]] < c["maxq"]:
                            self.disc("delivery", "overflow-warning-too-early",
                                      f"event #{es}: consumer {c['idx']} (queue {c['maxq']}) had a backlog of only {backlog[c['idx']]}")
                    else:
                        c["delivered"].append(es)
                        if backlog[c["idx"]] >= c["maxq"] + 1:
                            self.disc("delivery", "overflow-not-reported",
                                      f"event #{es}: consumer {c['idx']} (queue {c['maxq']}) had a backlog of {backlog[c['idx']]} "
                                      f"but no warning was issued")
                if sizes:
                    self.disc("delivery", "overflow-warning-unattributed", f"event #{es}: warnings for queue sizes {sizes} match no subscriber of {ch}")
                if len(targets) >= 2:
                    self.multi_sub_channel = True
                if any(c["left"] for c in cons):
                    self.left_while_dispatching = True
                self.trace.append(["dispatch", es, list(ch), [c["idx"] for c in targets], dict(backlog)])
            active_dispatchers[0] -= 1
            if active_dispatchers[0] == 0:
                all_done.set()

        async with anyio.create_task_group() as tg:
            for c in cons:
                tg.start_soon(consumer, c)
            for dsp in ops["dispatchers"]:
                tg.start_soon(dispatcher, dsp)
            await all_done.wait()
            await vsleep(50)  # every consumer drains what it was given
            for c in cons:
                if not c["left"] and c["end"] == "cancel" and "scope" in c:
                    c["scope"].cancel()
            await checkpoints(3)
            # one more dispatch per channel: cancelled / finished subscribers must not disturb dispatch
            for ch in chans[:2]:
                try:
                    probe = evs[sig_evt[ch]](0)
                    probe._verif_serial = -1  # type: ignore[attr-defined]
                    getattr(insts[ch[0]], ch[1]).dispatch(probe)
                except Exception as exc:
                    self.disc("delivery", "dispatch-raises", f"dispatch after consumers ended raised {short_exc(exc)}")
            tg.cancel_scope.cancel()

        if self.diverged:
            return
        for c in cons:
            # received = delivered events that pass the filter, in order (a prefix if it stopped early)
            passing = [es for es in c["delivered"] if _passes(c["filter"], ev_k[es])]
            rec = c["received"]
            want = passing if c["take"] is None else passing[: c["take"]]
            ok = rec == want
            if not ok:
                foreign = [es for es in rec if ev_chan.get(es) not in c["chans"]]
                dup = len(set(rec)) != len(rec)
                b = "foreign-event" if foreign else ("duplicate-event" if dup else ("order" if sorted(rec) == sorted(want) else "events-lost-or-extra"))
                self.disc("delivery", "conc-" + b, f"consumer {c['idx']} (channels {c['chans']}, queue {c['maxq']}, filter {c['filter']}, "
                          f"take {c['take']}) received {rec}; delivered to it {c['delivered']}, passing {passing}, warned {c['warned']}")

    def finish(self) -> Outcome:
        out = super().finish()
        out.labels = sorted((set(out.labels) - {"mode=seq"}) | {"mode=conc"})
        out.nontrivial = self.multi_sub_channel and (self.n_overflow > 0 or self.left_while_dispatching)
        return out


def run_case(case: dict, prop: str) -> Outcome:
    it = ConcInterp(case, prop) if case.get("mode") == "conc" else SeqInterp(case, prop)
    try:
        run_virtual(case["backend"], it.main, sched_seed=case.get("sched_seed", 0))
    except Deadlock as exc:
        it.both("deadlock", f"history deadlocked: {exc}; trace tail {it.trace[-3:]}")
    except HarnessError:
        raise
    except BaseException as exc:
        it.note_escape(exc)
        if it.harness_exc is not None or any(innermost_is_harness(l) for l in flatten_exc(exc)):
            raise
        it.both("run-raised:" + type(exc).__name__, f"run raised {short_exc(exc)}; trace tail {it.trace[-3:]}")
    if it.harness_exc is not None:
        raise HarnessError(f"harness exception inside the run: {short_exc(it.harness_exc)}") from it.harness_exc
    return it.finish()


def shrink_candidates(case: dict):
    if case.get("mode") == "conc":
        ops = case["ops"]
        for key in ("consumers", "dispatchers"):
            for i in range(len(ops[key])):
                if len(ops[key]) > 1:
                    c = copy.deepcopy(case)
                    del c["ops"][key][i]
                    yield c
        for di, dsp in enumerate(ops["dispatchers"]):
            for i in range(len(dsp["steps"])):
                c = copy.deepcopy(case)
                del c["ops"]["dispatchers"][di]["steps"][i]
                yield c
        return
    for i in range(len(case["ops"])):
        c = copy.deepcopy(case)
        del c["ops"][i]
        yield c
    for key, val in (("backend", "asyncio"), ("sched_seed", 0), ("late_drop", False)):
        if case.get(key) != val:
            c = copy.deepcopy(case)
            c[key] = val
            yield c
    lay = case["layout"]
    if len(lay["instances"]) > 1:
        for i in range(len(lay["instances"])):
            c = copy.deepcopy(case)
            del c["layout"]["instances"][i]
            c["first_access"] = [fa for fa in c["first_access"] if fa[0] != i]
            for fa in c["first_access"]:
                if fa[0] > i:
                    fa[0] -= 1
            bad = False
            for o in c["ops"]:
                for key in ("chans",):
                    if key in o:
                        if any(ch[0] == i for ch in o[key]):
                            bad = True
                        for ch in o[key]:
                            if ch[0] > i:
                                ch[0] -= 1
                if "ch" in o:
                    if o["ch"][0] == i:
                        bad = True
                    elif o["ch"][0] > i:
                        o["ch"][0] -= 1
            if not bad:
                yield c
