"""E2b - factories whose callback publishes into the generating context itself (C03, C04, C18).

A small, finite family next to the generated histories of harness/engines/resources.py: one factory
registered under 1-3 types; its callback - running inside a lookup - first adds static resources
under some of the factory's OWN (type, name) pairs through the ordinary module-level add_resource
(a factory that wants a teardown hook for a part of what it builds does exactly that), then returns
its product.  The statements leave no room here:

* C03: whatever the triggering lookup returned for its pair is what every later lookup of that pair
  returns; a successful add_resource holds its pair;
* C04: the factory is called once for the context; its product is registered under the pairs that
  were still free and nowhere else;
* C18: one event per successful add, one event for the generation carrying exactly the types the
  product was registered under - and none at all if nothing was registered.

case = {kind: "reentrant", backend, sched_seed, ftypes: [type idx], inner: [type idx] (subset of ftypes),
        t: type idx (in ftypes), api, fasync: bool, nested: bool, cps: 0..2}
The whole family is enumerated (exhaustive_cases); it is also mixed into the generated search so that
VERIF_SEED-dependent scheduling seeds are exercised.
"""

from __future__ import annotations

import itertools
from typing import Any, Optional

import anyio

from harness.core import HarnessError, Outcome, flatten_exc, innermost_is_harness, short_exc
from harness.vloop import Deadlock, checkpoints, run_virtual

APIS = ["m_nowait", "m_async", "f_nowait", "f_async", "inj_sync", "inj_async"]
NAME = "db"


class R0:
    def __init__(self, tag: Any) -> None:
        self.tag = tag

    def __repr__(self) -> str:
        return f"<{type(self).__name__} {self.tag}>"


class R1(R0):
    pass


class R2:
    def __init__(self, tag: Any) -> None:
        self.tag = tag

    def __repr__(self) -> str:
        return f"<R2 {self.tag}>"


RT = [R0, R1, R2]
RN = ["R0", "R1", "R2"]


def all_cases(backends: tuple = ("asyncio", "trio")):
    for n in (1, 2, 3):
        for ftypes in itertools.permutations(range(3), n):
            if list(ftypes) != sorted(ftypes) and n == 3 and ftypes[0] != 2:
                continue  # (a few orders of the full set are enough)
            for k in range(n + 1):
                for inner in itertools.combinations(ftypes, k):
                    for t in ftypes:
                        for api in APIS:
                            for fasync in (False, True):
                                for nested in (False, True):
                                    for backend in backends:
                                        yield {"kind": "reentrant", "backend": backend, "sched_seed": 0, "ftypes": list(ftypes),
                                               "inner": list(inner), "t": t, "api": api, "fasync": fasync, "nested": nested,
                                               "cps": 1 if fasync else 0}


def chain_cases(backends: tuple = ("asyncio", "trio")):
    """A factory whose callback looks another factory-made resource up (a session factory needing the engine)."""
    for a_async in (False, True):
        for b_async in (False, True):
            for api in APIS:
                for nested in (False, True):
                    for racers in (1, 2, 3):
                        for b_first in (False, True):
                            for backend in backends:
                                yield {"kind": "reentrant", "family": "chain", "backend": backend, "sched_seed": 0, "a_async": a_async,
                                       "b_async": b_async, "api": api, "nested": nested, "racers": racers, "b_first": b_first, "cps": 1}


WIDE = [type(f"W{i}", (), {}) for i in range(14)]


def wide_cases(backends: tuple = ("asyncio", "trio")):
    """One registration under a dozen types, one of which - at any position - is already taken."""
    for n in (11, 12, 14):
        for k in range(n):
            for factory in (False, True):
                for backend in backends:
                    yield {"kind": "reentrant", "family": "wide", "backend": backend, "sched_seed": 0, "n": n, "taken": k, "factory": factory}


def run_wide(case: dict, prop: str, classes: set[str]) -> Outcome:
    out = Outcome()
    n, k = case["n"], case["taken"]
    desc = f"[{'factory' if case['factory'] else 'resource'} registered under {n} types, type #{k} already taken]"

    def disc(cls: str, bucket: str, msg: str) -> None:
        if cls in classes:
            out.add(cls, f"{cls}:wide-{bucket}", msg + " " + desc)

    async def main() -> None:
        from asphalt.core import Context, ResourceConflict, ResourceEvent

        async with Context() as ctx:
            first = WIDE[k]()
            if case["factory"]:
                ctx.add_resource_factory(lambda: first, NAME, types=[WIDE[k]])
            else:
                ctx.add_resource(first, NAME, types=[WIDE[k]])
            cm = ctx.resource_added.stream_events(max_queue_size=1000)
            it = await cm.__aenter__()
            second = WIDE[0]()
            marks: list = []
            try:
                if case["factory"]:
                    ctx.add_resource_factory(lambda: second, NAME, types=WIDE[:n])
                else:
                    ctx.add_resource(second, NAME, types=WIDE[:n], teardown_callback=lambda: marks.append(1))
            except ResourceConflict:
                pass
            except Exception as exc:
                disc("conflict", "wrong-exception", f"the second registration raised {short_exc(exc)}, expected ResourceConflict")
            else:
                disc("conflict", "not-raised", "the second registration succeeded although one of its pairs was taken")
            sentinel = ResourceEvent((), "__verif_sentinel__", None, False)
            ctx.resource_added.dispatch(sentinel)
            events = []
            while True:
                ev = await it.__anext__()
                if ev is sentinel:
                    break
                events.append(ev)
            await cm.__aexit__(None, None, None)
            if events:
                disc("atomicity", "event", f"the refused registration dispatched {len(events)} event(s)")
                disc("event", "event", f"the refused registration dispatched {len(events)} event(s)")
            for j in range(n):
                got = ctx.get_resource_nowait(WIDE[j], NAME, optional=True)
                want = first if j == k else None
                if got is not want:
                    cls = "identity" if j == k else "atomicity"
                    disc(cls, "registry", f"afterwards (W{j}, {NAME!r}) resolves to {'the second object' if got is second else got!r}, "
                         f"expected {'the first object' if j == k else 'nothing'}")
                    break
        if marks:
            disc("atomicity", "teardown-ran", "the teardown callback of the refused registration ran")

    try:
        run_virtual(case["backend"], main, sched_seed=case.get("sched_seed", 0))
    except Deadlock as exc:
        disc("conflict", "deadlock", f"deadlocked: {exc}")
    except HarnessError:
        raise
    except BaseException as exc:
        if any(innermost_is_harness(leaf) for leaf in flatten_exc(exc)):
            raise HarnessError(f"harness exception inside the run: {short_exc(exc)}") from exc
        disc("conflict", "history-raised:" + type(exc).__name__, f"history raised {short_exc(exc)}")
    out.labels = sorted({case["backend"], "many-types", f"types={n}"})
    out.nontrivial = True
    out.trace = {"wide": True}
    return out


def retry_cases(backends: tuple = ("asyncio", "trio")):
    """An async factory whose first call fails while other lookups of the same pair are already waiting."""
    for racers in (2, 3, 4):
        for cps in (0, 1, 2):
            for api in ("m_async", "f_async", "inj_async"):
                for nested in (False, True):
                    for stagger in (0, 1):
                        for backend in backends:
                            yield {"kind": "reentrant", "family": "retry", "backend": backend, "sched_seed": 0, "racers": racers,
                                   "cps": cps, "api": api, "nested": nested, "stagger": stagger}
    # ... the same with a generation that takes long (virtual seconds) and with many other factories generated before
    for dur, pre in ((35, 0), (100, 0), (0, 15), (0, 16), (0, 20), (35, 16)):
        for racers in (2, 3):
            for backend in backends:
                yield {"kind": "reentrant", "family": "retry", "backend": backend, "sched_seed": 0, "racers": racers, "cps": 1,
                       "api": "m_async", "nested": False, "stagger": 0, "dur": dur, "pre": pre}


def run_retry(case: dict, prop: str, classes: set[str]) -> Outcome:
    out = Outcome()
    st: dict[str, Any] = {"calls": 0, "harness_exc": None}
    api = case["api"]
    desc = (f"[{case['racers']} tasks look one async factory up through {api}; its first call raises after {case['cps']} checkpoint(s); "
            f"{'child' if case['nested'] else 'same'} context]")

    class Broken(Exception):
        pass

    def disc(cls: str, bucket: str, msg: str) -> None:
        if cls in classes:
            out.add(cls, f"{cls}:retry-{bucket}", msg + " " + desc)

    async def main() -> None:
        from asphalt.core import Context, ResourceEvent, get_resource, inject, resource

        products: list = []

        async def body() -> Any:
            st["calls"] += 1
            n = st["calls"]
            await checkpoints(case["cps"])
            if case.get("dur"):
                await anyio.sleep(case["dur"])  # (virtual seconds: generating may take long)
            if n == 1:
                raise Broken("first call")
            o = R0(("product", n))
            products.append(o)
            await checkpoints(case["cps"])
            return o

        def factory() -> Any:
            # (an async factory that is not an `async def`: every invocation is counted, whether or not
            # the awaitable it returns is ever awaited)
            st["invoked"] = st.get("invoked", 0) + 1
            return body()

        async def one(ctx: Any, k: int, results: list) -> None:
            await checkpoints(k * case["stagger"])
            try:
                if api == "m_async":
                    r = await ctx.get_resource(R0, NAME)
                elif api == "f_async":
                    r = await get_resource(R0, NAME)
                else:
                    async def afn(*, r=resource(NAME)):  # type: ignore[no-untyped-def]
                        return r
                    afn.__annotations__ = {"r": R0}
                    r = await inject(afn)()
                results.append(("ok", r))
            except Broken as exc:
                results.append(("broken", exc))
            except Exception as exc:
                results.append(("raise", exc))

        async def scenario(ctx: Any) -> None:
            for k in range(case.get("pre", 0)):
                # other factories already generated in this context before the race
                await ctx.get_resource(R2, f"pre{k}")
            cm = ctx.resource_added.stream_events(max_queue_size=1000)
            it = await cm.__aenter__()
            results: list = []
            async with anyio.create_task_group() as tg:
                for k in range(case["racers"]):
                    tg.start_soon(one, ctx, k, results)
            sentinel = ResourceEvent((), "__verif_sentinel__", None, False)
            ctx.resource_added.dispatch(sentinel)
            events = []
            while True:
                ev = await it.__anext__()
                if ev is sentinel:
                    break
                events.append((tuple(x.__name__ for x in ev.resource_types), ev.resource_name, bool(ev.is_factory)))
            await cm.__aexit__(None, None, None)
            oks = [r for k_, r in results if k_ == "ok"]
            other = [r for k_, r in results if k_ == "raise"]
            broken = [r for k_, r in results if k_ == "broken"]
            if other:
                disc("generation", "lookup-raised", f"a lookup raised {short_exc(other[0])}")
                return
            if len(broken) != 1:
                disc("generation", "failure-seen-by", f"{len(broken)} lookups raised the factory's error; only the one that ran the failing call may")
            if st.get("invoked", 0) != st["calls"]:
                disc("generation", "factory-invoked-not-run", f"the factory callback was invoked {st.get('invoked', 0)} times but only "
                     f"{st['calls']} of the awaitables it returned were ever run")
            if len(products) != 1 or st["calls"] != 2:
                disc("generation", "factory-calls", f"the factory was called {st['calls']} times and produced {len(products)} objects; after one "
                     f"failed call exactly one more call may happen for the context")
            if any(o is not oks[0] for o in oks) or (oks and products and oks[0] is not products[0]):
                disc("generation", "different-objects", f"the successful lookups returned {len({id(o) for o in oks})} different objects")
                disc("identity", "different-objects", f"the successful lookups returned {len({id(o) for o in oks})} different objects")
            later = await ctx.get_resource(R0, NAME)
            if oks and later is not oks[0]:
                disc("identity", "pair-changed-object", "a later lookup returned another object than the racing lookups")
            if events != [(("R0",), NAME, False)]:
                disc("event", "log", f"events {events}, expected exactly one generation event")

        async with Context() as root:
            root.add_resource_factory(factory, NAME, types=[R0])
            for k in range(case.get("pre", 0)):
                async def other(k: int = k) -> Any:
                    await checkpoints(1)
                    return R2(("pre", k))
                root.add_resource_factory(other, f"pre{k}", types=[R2])
            if case["nested"]:
                async with Context() as child:
                    await scenario(child)
            else:
                await scenario(root)

    async def guarded() -> None:
        try:
            await main()
        except BaseException as exc:
            for leaf in flatten_exc(exc):
                if isinstance(leaf, HarnessError) or (isinstance(leaf, Exception) and innermost_is_harness(leaf)):
                    st["harness_exc"] = leaf
            raise

    try:
        run_virtual(case["backend"], guarded, sched_seed=case.get("sched_seed", 0))
    except Deadlock as exc:
        disc("generation", "deadlock", f"deadlocked: {exc}")
    except BaseException as exc:
        if st["harness_exc"] is not None or isinstance(exc, HarnessError):
            raise HarnessError(f"harness exception inside the run: {short_exc(st['harness_exc'] or exc)}") from exc
        disc("generation", "history-raised:" + type(exc).__name__, f"history raised {short_exc(exc)}")
    out.labels = sorted({case["backend"], "failing-first-call-with-waiters", "api=" + api, f"racers={case['racers']}"})
    out.nontrivial = True
    out.trace = {"retry": True}
    return out


def run_chain(case: dict, prop: str, classes: set[str]) -> Outcome:
    out = Outcome()
    st: dict[str, Any] = {"a": 0, "b": 0, "harness_exc": None}
    api = case["api"]
    sync_api = api in ("m_nowait", "f_nowait", "inj_sync")
    desc = (f"[factory A ({'async' if case['a_async'] else 'sync'}) looks up the product of factory B ({'async' if case['b_async'] else 'sync'}); "
            f"{case['racers']} task(s) look A up through {api}; {'child' if case['nested'] else 'same'} context; "
            f"B {'generated before' if case['b_first'] else 'not generated before'}]")

    def disc(cls: str, bucket: str, msg: str) -> None:
        if cls in classes:
            out.add(cls, f"{cls}:chain-{bucket}", msg + " " + desc)

    async def main() -> None:
        from asphalt.core import AsyncResourceError, Context, ResourceEvent, get_resource, get_resource_nowait, inject, resource

        prod_a, prod_b = R0(("A",)), R2(("B",))
        seen_b: list = []

        if case["b_async"]:
            async def fb() -> Any:
                st["b"] += 1
                await checkpoints(case["cps"])
                return prod_b
        else:
            def fb() -> Any:  # type: ignore[misc]
                st["b"] += 1
                return prod_b

        if case["a_async"]:
            async def fa() -> Any:
                st["a"] += 1
                await checkpoints(case["cps"])
                seen_b.append(await get_resource(R2, NAME))
                await checkpoints(case["cps"])
                return prod_a
        else:
            def fa() -> Any:  # type: ignore[misc]
                st["a"] += 1
                seen_b.append(get_resource_nowait(R2, NAME))
                return prod_a

        # what must happen
        a_fails = None
        if sync_api and case["a_async"]:
            a_fails = "AsyncResourceError"  # the sync API cannot run A
        elif not case["a_async"] and case["b_async"] and not case["b_first"]:
            a_fails = "AsyncResourceError"  # A's own sync lookup cannot run B

        async def one_lookup(ctx: Any, results: list) -> None:
            try:
                if api == "m_nowait":
                    r = ctx.get_resource_nowait(R0, NAME)
                elif api == "m_async":
                    r = await ctx.get_resource(R0, NAME)
                elif api == "f_nowait":
                    r = get_resource_nowait(R0, NAME)
                elif api == "f_async":
                    r = await get_resource(R0, NAME)
                elif api == "inj_sync":
                    def fn(*, r=resource(NAME)):  # type: ignore[no-untyped-def]
                        return r
                    fn.__annotations__ = {"r": R0}
                    r = inject(fn)()
                else:
                    async def afn(*, r=resource(NAME)):  # type: ignore[no-untyped-def]
                        return r
                    afn.__annotations__ = {"r": R0}
                    r = await inject(afn)()
                results.append(("ok", r))
            except Exception as exc:
                results.append(("raise", exc))

        async def scenario(ctx: Any) -> None:
            if case["b_first"]:
                await ctx.get_resource(R2, NAME)
            cm = ctx.resource_added.stream_events(max_queue_size=1000)
            it = await cm.__aenter__()
            results: list = []
            async with anyio.create_task_group() as tg:
                for _ in range(case["racers"]):
                    tg.start_soon(one_lookup, ctx, results)
            sentinel = ResourceEvent((), "__verif_sentinel__", None, False)
            ctx.resource_added.dispatch(sentinel)
            events = []
            while True:
                ev = await it.__anext__()
                if ev is sentinel:
                    break
                events.append((tuple(sorted(x.__name__ for x in ev.resource_types)), ev.resource_name, bool(ev.is_factory), ev.source is ctx))
            await cm.__aexit__(None, None, None)
            view_a, view_b = ctx.get_resources(R0).get(NAME), ctx.get_resources(R2).get(NAME)
            if a_fails:
                bad = [r for r in results if r[0] != "raise" or type(r[1]).__name__ != a_fails]
                if bad:
                    disc("generation", "should-fail", f"lookups gave {[(k, short_exc(v) if k == 'raise' else repr(v)) for k, v in results]}, "
                         f"expected every one to raise {a_fails}")
                if view_a is not None:
                    disc("generation", "failed-generation-registered", f"after the failed lookups (R0, {NAME!r}) holds {view_a!r}")
                return
            for k, v in results:
                if k == "raise":
                    disc("generation", "lookup-raised", f"a lookup raised {short_exc(v)}")
                    return
                if v is not prod_a:
                    disc("generation", "wrong-object", f"a lookup returned {v!r}, expected A's product")
                    disc("identity", "wrong-object", f"a lookup returned {v!r}, expected A's product")
            if st["a"] != 1 or st["b"] != 1:
                disc("generation", "factory-calls", f"factory A was called {st['a']} times, factory B {st['b']} times; each must be called "
                     f"once for the context")
            if view_a is not prod_a or view_b is not prod_b or any(x is not prod_b for x in seen_b):
                disc("generation", "registry", f"afterwards the context holds A={view_a!r}, B={view_b!r}; A's callback saw {seen_b!r}")
            expected = ([] if case["b_first"] else [(("R2",), NAME, False, True)]) + [(("R0",), NAME, False, True)]
            if events != expected:
                disc("event", "log", f"events {events}, expected {expected}")

        async with Context() as root:
            root.add_resource_factory(fa, NAME, types=[R0])
            root.add_resource_factory(fb, NAME, types=[R2])
            if case["nested"]:
                async with Context() as child:
                    await scenario(child)
                if root.get_resources(R0) or root.get_resources(R2):
                    disc("generation", "leaked-to-parent", "the parent context shows generated resources after a generation in its child")
            else:
                await scenario(root)

    async def guarded() -> None:
        try:
            await main()
        except BaseException as exc:
            for leaf in flatten_exc(exc):
                if isinstance(leaf, HarnessError) or (isinstance(leaf, Exception) and innermost_is_harness(leaf)):
                    st["harness_exc"] = leaf
            raise

    try:
        run_virtual(case["backend"], guarded, sched_seed=case.get("sched_seed", 0))
    except Deadlock as exc:
        disc("generation", "deadlock", f"deadlocked: {exc}")
    except BaseException as exc:
        if st["harness_exc"] is not None or isinstance(exc, HarnessError):
            raise HarnessError(f"harness exception inside the run: {short_exc(st['harness_exc'] or exc)}") from exc
        disc("generation", "history-raised:" + type(exc).__name__, f"history raised {short_exc(exc)}")
    out.labels = sorted({case["backend"], "chained-factories", "api=" + api, f"racers={case['racers']}"})
    out.nontrivial = case["racers"] > 1 or case["nested"]
    out.trace = {"chain": True}
    return out


def run_case(case: dict, prop: str, classes: set[str]) -> Outcome:
    if case.get("family") == "chain":
        return run_chain(case, prop, classes)
    if case.get("family") == "retry":
        return run_retry(case, prop, classes)
    if case.get("family") == "wide":
        return run_wide(case, prop, classes)
    out = Outcome()
    st: dict[str, Any] = {"calls": 0, "inner_errors": [], "harness_exc": None}
    ftypes, inner, t, api = case["ftypes"], case["inner"], case["t"], case["api"]
    sync_api = api in ("m_nowait", "f_nowait", "inj_sync")
    labs = {case["backend"], "reentrant-factory", "api=" + api, "async-factory" if case["fasync"] else "sync-factory",
            f"inner={len(inner)}/{len(ftypes)}", "requested-pair-taken-by-callback" if t in inner else "requested-pair-free"}

    def disc(cls: str, bucket: str, msg: str) -> None:
        if cls in classes:
            out.add(cls, f"{cls}:reentrant-{bucket}", msg + f" [factory types {[RN[i] for i in ftypes]}, callback adds {[RN[i] for i in inner]}, "
                    f"lookup {api}({RN[t]}, {NAME!r}), {'async' if case['fasync'] else 'sync'} factory, {'child' if case['nested'] else 'same'} context]")

    async def main() -> None:
        from asphalt.core import (
            AsyncResourceError,
            Context,
            ResourceEvent,
            add_resource,
            get_resource,
            get_resource_nowait,
            inject,
            resource,
        )

        product = RT[ftypes[0]](("generated",))
        statics = {s: RT[s](("static", s)) for s in inner}
        names = {id(product): "generated", **{id(v): f"static:{RN[s]}" for s, v in statics.items()}}

        def ser(o: Any) -> Any:
            return None if o is None else names.get(id(o), repr(o)[:60])

        def publish() -> None:
            for s in inner:
                try:
                    add_resource(statics[s], NAME, types=[RT[s]])
                except Exception as exc:  # the pair is free: the add must succeed
                    st["inner_errors"].append(f"add_resource({RN[s]}) inside the factory raised {short_exc(exc)}")

        if case["fasync"]:
            async def factory() -> Any:
                st["calls"] += 1
                await checkpoints(case.get("cps", 0))
                publish()
                await checkpoints(case.get("cps", 0))
                return product
        else:
            def factory() -> Any:  # type: ignore[misc]
                st["calls"] += 1
                publish()
                return product

        async def drain(ctx: Any, it: Any) -> list:
            sentinel = ResourceEvent((), "__verif_sentinel__", None, False)
            ctx.resource_added.dispatch(sentinel)
            got = []
            while True:
                ev = await it.__anext__()
                if ev is sentinel:
                    return got
                got.append((tuple(sorted(RN[RT.index(x)] if x in RT else repr(x) for x in ev.resource_types)), ev.resource_name,
                            bool(ev.is_factory), ev.source is ctx))

        async def scenario(root: Any, ctx: Any) -> None:
            cm = ctx.resource_added.stream_events(max_queue_size=1000)
            it = await cm.__aenter__()
            T = RT[t]
            result: Any = None
            exc: BaseException | None = None
            try:
                if api == "m_nowait":
                    result = ctx.get_resource_nowait(T, NAME)
                elif api == "m_async":
                    result = await ctx.get_resource(T, NAME)
                elif api == "f_nowait":
                    result = get_resource_nowait(T, NAME)
                elif api == "f_async":
                    result = await get_resource(T, NAME)
                elif api == "inj_sync":
                    def fn(*, r=resource(NAME)):  # type: ignore[no-untyped-def]
                        return r
                    fn.__annotations__ = {"r": T}
                    result = inject(fn)()
                else:
                    async def afn(*, r=resource(NAME)):  # type: ignore[no-untyped-def]
                        return r
                    afn.__annotations__ = {"r": T}
                    result = await inject(afn)()
            except Exception as e:
                exc = e
            events = await drain(ctx, it)
            await cm.__aexit__(None, None, None)
            view = {u: ctx.get_resources(RT[u]).get(NAME) for u in range(3)}
            where = "the generating context"

            if sync_api and case["fasync"]:
                # the sync API cannot run an async factory: AsyncResourceError, nothing registered, callback body never ran
                if not isinstance(exc, AsyncResourceError):
                    disc("generation", "sync-api-on-async-factory", f"lookup gave {ser(result) if exc is None else short_exc(exc)}, expected AsyncResourceError")
                if any(v is not None for v in view.values()) or events:
                    disc("generation", "sync-api-on-async-factory-registered", f"after the failed lookup {where} shows "
                         f"{ {RN[u]: ser(v) for u, v in view.items() if v is not None} }, events {events}")
                return
            if st["inner_errors"]:
                disc("conflict", "inner-add-raised", "; ".join(st["inner_errors"]))
                return
            if exc is not None:
                disc("generation", "lookup-raised", f"the lookup raised {short_exc(exc)}")
                return
            if st["calls"] != 1:
                disc("generation", "factory-calls", f"factory called {st['calls']} times by one lookup")
            # what the pairs hold now
            for u in range(3):
                want = statics[u] if u in inner else (product if u in ftypes else None)
                if view[u] is not want:
                    cls = "conflict" if u in inner else "generation"
                    disc(cls, "registry", f"afterwards ({RN[u]}, {NAME!r}) holds {ser(view[u])} in {where}, expected {ser(want)}")
                    if cls == "conflict":
                        disc("event", "registry", f"afterwards ({RN[u]}, {NAME!r}) holds {ser(view[u])} in {where}, expected {ser(want)}")
            # the triggering lookup and every later one agree
            want_t = statics[t] if t in inner else product
            later = []
            for _ in range(2):
                later.append(await ctx.get_resource(RT[t], NAME))
            later.append(ctx.get_resource_nowait(RT[t], NAME) if not case["fasync"] or view[t] is not None else later[-1])
            if any(x is not later[0] for x in later):
                disc("identity", "later-lookups-disagree", f"later lookups of the pair returned {[ser(x) for x in later]}")
            elif result is not later[0]:
                disc("identity", "pair-changed-object", f"the triggering lookup returned {ser(result)}, every later lookup of the same "
                     f"pair returns {ser(later[0])}")
            elif result is not want_t:
                disc("identity", "wrong-object", f"lookups return {ser(result)}, expected {ser(want_t)}")
            if st["calls"] != 1:
                disc("generation", "factory-calls", f"factory called {st['calls']} times for one context (lookups after the first one)")
            # events of the generating context
            free = tuple(sorted(RN[u] for u in ftypes if u not in inner))
            expected = [((RN[s],), NAME, False, True) for s in inner] + ([(free, NAME, False, True)] if free else [])
            # (the factory itself was announced before this listener existed)
            if events != expected:
                disc("event", "log", f"events on {where}: {events}, expected {expected}")

        async with Context() as root:
            root.add_resource_factory(factory, NAME, types=[RT[u] for u in ftypes])
            if case["nested"]:
                cm0 = root.resource_added.stream_events(max_queue_size=1000)
                it0 = await cm0.__aenter__()
                async with Context() as child:
                    await scenario(root, child)
                ev0 = await drain(root, it0)
                await cm0.__aexit__(None, None, None)
                if ev0:
                    disc("event", "foreign-context", f"the parent context received {ev0} for a generation in its child")
                leaked = {RN[u]: root.get_resources(RT[u]).get(NAME) for u in range(3)}
                if any(v is not None for v in leaked.values()):
                    disc("generation", "leaked-to-parent", f"the parent context shows {leaked} after a generation in its child")
            else:
                await scenario(root, root)

    async def guarded() -> None:
        try:
            await main()
        except BaseException as exc:
            for leaf in flatten_exc(exc):
                if isinstance(leaf, HarnessError) or (isinstance(leaf, Exception) and innermost_is_harness(leaf)):
                    st["harness_exc"] = leaf
            raise

    try:
        run_virtual(case["backend"], guarded, sched_seed=case.get("sched_seed", 0))
    except Deadlock as exc:
        disc("generation", "deadlock", f"deadlocked: {exc}")
    except BaseException as exc:
        if st["harness_exc"] is not None or isinstance(exc, HarnessError):
            raise HarnessError(f"harness exception inside the run: {short_exc(st['harness_exc'] or exc)}") from exc
        disc("generation", "history-raised:" + type(exc).__name__, f"history raised {short_exc(exc)}")
        disc("event", "history-raised:" + type(exc).__name__, f"history raised {short_exc(exc)}")
        disc("identity", "history-raised:" + type(exc).__name__, f"history raised {short_exc(exc)}")
    out.labels = sorted(labs)
    out.nontrivial = bool(inner)
    out.trace = {"reentrant": True}
    return out
