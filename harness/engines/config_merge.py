"""E8a - C17: merge_config is a pure, right-biased deep merge.

case = {"a": dict|None, "b": dict|None}; plain JSON data.
"""

from __future__ import annotations

import copy
import itertools
from typing import Any

from hypothesis import strategies as st

from functools import lru_cache

from harness.core import Outcome, short_exc
from harness.gen import ints

KEYS = ["a", "b", "c", "a.b", "", "x.y.z", "b.c"]


def ref_merge(a: Any, b: Any) -> dict:
    """Independent reference written from the statement of C17."""
    out = {}
    a = {} if a is None else a
    b = {} if b is None else b
    for k in a:
        if k in b:
            if isinstance(a[k], dict) and isinstance(b[k], dict):
                out[k] = ref_merge(a[k], b[k])
            else:
                out[k] = b[k]
        else:
            out[k] = a[k]
    for k in b:
        if k not in a:
            out[k] = b[k]
    return out


def strict_eq(a: Any, b: Any) -> bool:
    """Equality that tells 1 from True from 1.0 (configuration values keep their types)."""
    if type(a) is not type(b):
        return False
    if isinstance(a, dict):
        return set(a) == set(b) and all(strict_eq(a[k], b[k]) for k in a)
    if isinstance(a, list):
        return len(a) == len(b) and all(strict_eq(x, y) for x, y in zip(a, b))
    return a == b


def _dict_paths(d: Any, path: tuple = ()) -> list:
    out = []
    if isinstance(d, dict):
        for k, v in d.items():
            if isinstance(v, dict):
                out.append(path + (k,))
                out.extend(_dict_paths(v, path + (k,)))
    return out


def _get(d: Any, path: tuple) -> Any:
    for k in path:
        d = d[k]
    return d


def _idgraph(d: Any, path: tuple = ()) -> list:
    out = []
    if isinstance(d, dict):
        out.append((path, id(d)))
        for k, v in d.items():
            out.extend(_idgraph(v, path + (k,)))
    elif isinstance(d, list):
        out.append((path, id(d)))
        for i, v in enumerate(d):
            out.extend(_idgraph(v, path + (i,)))
    return out


def _collisions(a: Any, b: Any, depth: int = 1) -> set:
    """Labels of the collision kinds present in the pair."""
    labs = set()
    if not isinstance(a, dict) or not isinstance(b, dict):
        return labs
    for k in a:
        if k in b:
            da, db = isinstance(a[k], dict), isinstance(b[k], dict)
            if da and db:
                labs.add(f"dict/dict@{min(depth, 3)}")
                labs |= _collisions(a[k], b[k], depth + 1)
            elif da:
                labs.add("dict/scalar")
            elif db:
                labs.add("scalar/dict")
            elif isinstance(a[k], list) and isinstance(b[k], list):
                labs.add("list/list")
            else:
                labs.add("scalar/scalar")
    return labs


class _Section(dict):
    """A dict subclass (configuration defaults written in code are often OrderedDicts or own mapping types)."""


def _as_subclass(v: Any, kind: int) -> Any:
    import collections

    if isinstance(v, dict):
        cls = {1: collections.OrderedDict, 2: _Section}[kind]
        return cls((k, _as_subclass(x, kind)) for k, x in v.items())
    if isinstance(v, list):
        return [_as_subclass(x, kind) for x in v]
    return v


def _plain(v: Any) -> Any:
    """Dictionaries of any dict type as plain dicts (the statement speaks of dictionaries, not of their classes)."""
    if isinstance(v, dict):
        return {k: _plain(x) for k, x in v.items()}
    if isinstance(v, list):
        return [_plain(x) for x in v]
    return v


def run_case(case: dict, prop: str) -> Outcome:
    from asphalt.core import merge_config as _merge_config

    def merge_config(x: Any, y: Any) -> Any:
        r = _merge_config(x, y)
        return _plain(r) if (case.get("sub_a") or case.get("sub_b")) and isinstance(r, dict) else r

    out = Outcome()
    a, b = copy.deepcopy(case["a"]), copy.deepcopy(case["b"])
    if case.get("sub_a") and a is not None:
        a = _as_subclass(a, case["sub_a"])
    if case.get("sub_b") and b is not None:
        b = _as_subclass(b, case["sub_b"])
    # optionally the SAME dict object sits at two places of an argument (YAML anchors, reused option dicts)
    for which, arg in (("alias_a", a), ("alias_b", b)):
        al = case.get(which)
        if al and isinstance(arg, dict):
            try:
                src = _get(arg, tuple(al[0]))
                parent = _get(arg, tuple(al[1][:-1]))
                if isinstance(src, dict) and isinstance(parent, dict) and al[1][-1] in parent and tuple(al[0]) != tuple(al[1]) \
                        and tuple(al[1][: len(al[0])]) != tuple(al[0]) and tuple(al[0][: len(al[1])]) != tuple(al[1]):
                    parent[al[1][-1]] = src
            except (KeyError, TypeError, IndexError):
                pass
    wrap = case.get("wrap") or 0
    for i in range(wrap):
        # the whole pair sits `wrap` levels down (deeply nested configuration; every level is a dict/dict collision)
        k = KEYS[(wrap - i) % len(KEYS)]
        a = None if a is None else {k: a}
        b = None if b is None else {k: b}
    a0, b0 = _plain(copy.deepcopy(a)), _plain(copy.deepcopy(b))
    ga, gb = _idgraph(a), _idgraph(b)
    ga_post = (ga, gb)
    labs = _collisions(a, b)
    if case.get("alias_a") or case.get("alias_b"):
        labs.add("shared-subdict")
    if case.get("sub_a") or case.get("sub_b"):
        labs.add("dict-subclass")
    if wrap:
        labs.add("nesting>32" if wrap + 1 > 32 else "nesting>8" if wrap + 1 > 8 else "nesting<=8")
    if case.get("remerge"):
        labs.add("remerge:" + case["remerge"]["mut"])
    out.labels = sorted(labs) + [f"a={'None' if a is None else 'dict'}", f"b={'None' if b is None else 'dict'}"]
    out.nontrivial = bool(labs & {"dict/dict@2", "dict/dict@3", "dict/scalar", "scalar/dict"})
    try:
        res = merge_config(a, b)
    except Exception as exc:
        out.add("merge", "merge:raises:" + type(exc).__name__, f"merge_config raised {short_exc(exc)}")
        return out
    exp = _plain(ref_merge(a0, b0))
    out.trace = {"result": res}
    if not isinstance(res, dict):
        out.add("merge", "merge:not-dict", f"result is {type(res).__name__}")
        return out
    if not strict_eq(res, exp):
        kinds = ",".join(sorted(labs)) or "none"
        # bucket by the direction of the error, not by the data
        if res == exp:
            b_ = "merge:value-type-differs"  # equal but of another type (1 / True / 1.0)
        elif a0 is not None and b0 is not None and res == ref_merge(b0, a0):
            b_ = "merge:left-biased"
        elif set(res) != set(exp):
            b_ = "merge:keys-differ"
        else:
            b_ = "merge:value-differs"
        out.add("merge", b_, f"merge_config({a0!r}, {b0!r}) = {res!r}, expected {exp!r} (collisions: {kinds})")
    if res is a or res is b:
        out.add("purity", "purity:result-is-argument", "result is one of the arguments, not a new dict")
    ga, gb = (ga, gb)
    if not strict_eq(_plain(a), a0) or _idgraph(a) != ga_post[0]:
        out.add("purity", "purity:original-modified", f"original modified: before {a0!r} after {a!r}")
    if not strict_eq(_plain(b), b0) or _idgraph(b) != ga_post[1]:
        out.add("purity", "purity:overrides-modified", f"overrides modified: before {b0!r} after {b!r}")
    # laws (cheap, and they do not go through the reference)
    try:
        if a0 is not None:
            if not strict_eq(merge_config(a, {}), a0) or not strict_eq(merge_config(a, None), a0):
                out.add("merge", "law:right-identity", f"merge(a, {{}}) != a for a={a0!r}")
            if not strict_eq(merge_config({}, a), a0) or not strict_eq(merge_config(None, a), a0):
                out.add("merge", "law:left-identity", f"merge({{}}, a) != a for a={a0!r}")
            if not strict_eq(merge_config(a, a), a0):
                out.add("merge", "law:idempotent", f"merge(a, a) != a for a={a0!r}")
            if a != a0 or _idgraph(a) != ga:
                out.add("purity", "purity:original-modified", f"original modified by identity-law calls: {a0!r} -> {a!r}")
        # a mutation of the result at top level must not reach the arguments
        res2 = merge_config(a, b)
        for k in list(res2):
            del res2[k]
        res2["__new__"] = 1
        if a != a0 or b != b0:
            out.add("purity", "purity:result-aliases-argument", "clearing the result changed an argument")
    except Exception as exc:
        out.add("merge", "merge:raises:" + type(exc).__name__, f"law call raised {short_exc(exc)}")
    rm = case.get("remerge")
    if rm and not out.discs:
        _remerge(out, rm, a, b, res, wrap)
    return out


def _remerge(out: Outcome, rm: dict, a: Any, b: Any, res: dict, wrap: int) -> None:
    """The same argument objects are merged again after one of them (or a freshly merged part of the
    earlier result) was changed in place: the second result is a function of what the arguments hold now."""
    from asphalt.core import merge_config

    target = {"arg_a": a, "arg_b": b, "result": res}[rm["mut"]]
    path = [KEYS[(wrap - i) % len(KEYS)] for i in reversed(range(wrap))] + list(rm["path"])
    try:
        node = _get(target, tuple(path))
        if rm["mut"] == "result":
            # only dictionaries the merge itself made (dict/dict collisions along the whole path) are the caller's to change
            _get(a, tuple(path)), _get(b, tuple(path))
            na, nb = a, b
            for k in path:
                na, nb = na[k], nb[k]
                if not isinstance(na, dict) or not isinstance(nb, dict):
                    return
    except (KeyError, TypeError, IndexError):
        return
    if not isinstance(node, dict):
        return
    if rm["value"] == "__del__":
        if rm["key"] not in node:
            return
        del node[rm["key"]]
    else:
        node[rm["key"]] = copy.deepcopy(rm["value"])
    a1, b1 = copy.deepcopy(a), copy.deepcopy(b)
    try:
        res3 = merge_config(a, b)
    except Exception as exc:
        out.add("merge", "merge:raises:" + type(exc).__name__, f"second merge raised {short_exc(exc)}")
        return
    exp3 = _plain(ref_merge(a1, b1))
    res3 = _plain(res3) if isinstance(res3, dict) else res3
    if not strict_eq(res3, exp3):
        out.add("merge", "merge:stale-second-merge",
                f"after changing {rm['mut']} at {path!r} [{rm['key']!r}] = {rm['value']!r}, merge_config({a1!r}, {b1!r}) = {res3!r}, "
                f"expected {exp3!r}")
    if not strict_eq(a, a1) or not strict_eq(b, b1):
        out.add("purity", "purity:original-modified", "an argument was modified by the second merge")


# ---- generators ---------------------------------------------------------------------

_scalars = st.one_of(
    st.none(), st.booleans(), st.integers(-3, 3), st.sampled_from(["", "x", "a.b"]), st.sampled_from([0, 1, True, False, 0.0, 1.0]),
    st.floats(allow_nan=False, allow_infinity=False, width=16),
)
_leaf = st.one_of(_scalars, st.lists(_scalars, max_size=2), st.just({}))
_key = st.sampled_from(KEYS)


@lru_cache(maxsize=None)
def _values(depth: int) -> st.SearchStrategy:
    if depth <= 0:
        return _leaf
    return st.one_of(_leaf, _dicts(depth, 4))


@lru_cache(maxsize=None)
def _dicts(depth: int, max_keys: int = 4) -> st.SearchStrategy:
    return st.dictionaries(_key, _values(depth - 1), max_size=max_keys)


_extra = st.dictionaries(_key, _values(1), max_size=2)


@st.composite
def _pairs(draw: Any, max_keys: int) -> dict:
    a = draw(st_a(max_keys))
    mode = draw(ints(0, 3))
    if mode == 0 or a is None:
        b = draw(st_a(max_keys))
    else:
        # b is built along a's shape so that deep collisions are frequent
        b = _shadow(draw, a, 4)
    case = {"a": a, "b": b}
    if draw(ints(0, 99)) < 35:
        for which, arg, other in (("alias_b", b, a), ("alias_a", a, b)):
            ps = _dict_paths(arg) if isinstance(arg, dict) else []
            # positions that collide with a dict on the other side are where sharing matters
            both = [p for p in ps if isinstance(other, dict) and p in _dict_paths(other)]
            if len(both) >= 2:
                ps = both
            if len(ps) >= 2 and (which == "alias_b" or draw(ints(0, 1))):
                i = draw(ints(0, len(ps) - 1))
                j = draw(ints(0, len(ps) - 1))
                if i != j:
                    case[which] = [list(ps[i]), list(ps[j])]
    if draw(ints(0, 99)) < 15:
        # one side (or both, with different classes) uses a dict subclass throughout
        case["sub_a"], case["sub_b"] = [(1, 0), (0, 1), (2, 0), (0, 2), (1, 2), (2, 2)][draw(ints(0, 5))]
    r = draw(ints(0, 99))
    if r < 12:
        case["wrap"] = draw(ints(1, 100))
    elif r < 20:
        case["wrap"] = draw(ints(28, 36))
    if draw(ints(0, 99)) < 30:
        mut = ["arg_a", "arg_b", "result"][draw(ints(0, 2))]
        src = {"arg_a": a, "arg_b": b, "result": ref_merge(a, b)}[mut]
        if isinstance(src, dict):
            if mut == "result":
                ps = [()] + [p for p in _dict_paths(a) if isinstance(b, dict) and p in _dict_paths(b)]
            else:
                ps = [()] + _dict_paths(src)
            path = ps[draw(ints(0, len(ps) - 1))]
            node = _get(src, path)
            keys = sorted(node) + KEYS[:3]
            key = keys[draw(ints(0, len(keys) - 1))]
            value = "__del__" if key in node and draw(ints(0, 3)) == 0 else draw(_values(1))
            case["remerge"] = {"mut": mut, "path": list(path), "key": key, "value": value}
    return case


@lru_cache(maxsize=None)
def st_a(max_keys: int) -> st.SearchStrategy:
    return st.one_of(st.none(), _dicts(4, max_keys))


def _shadow(draw: Any, a: dict, depth: int) -> dict:
    out = {}
    for k, v in a.items():
        how = draw(ints(0, 4))
        if how == 0:
            continue
        if isinstance(v, dict) and how in (1, 2) and depth > 0:
            out[k] = _shadow(draw, v, depth - 1)
        else:
            out[k] = draw(_values(max(depth - 1, 0)))
    extra = draw(_extra)
    for k, v in extra.items():
        out.setdefault(k, v)
    return out


def strategy(prop: str, tier: str) -> st.SearchStrategy:
    return _pairs(4 if tier == "quick" else 5)


def _small_dicts(depth: int) -> list:
    leaves = [1, None, [], {}]
    if depth == 1:
        vals: list = leaves
    else:
        inner = _small_dicts(depth - 1)
        vals = [1, None, []] + inner  # {} is among inner
    out = []
    for va in [_ABSENT] + vals:
        for vb in [_ABSENT] + vals:
            d = {}
            if va is not _ABSENT:
                d["a"] = va
            if vb is not _ABSENT:
                d["b"] = vb
            out.append(d)
    return out


_ABSENT = object()


def exhaustive_cases(prop: str, tier: str, w: int, n: int):
    dicts = _small_dicts(1 if tier == "quick" else 2)
    args = [None] + dicts
    for i, (a, b) in enumerate(itertools.product(args, args)):
        if i % n == w:
            yield {"a": a, "b": b}
