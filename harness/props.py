"""Registry: property id -> engine, budgets, evidence texts."""

from __future__ import annotations

from dataclasses import dataclass, field
from typing import Any


@dataclass
class Spec:
    engine: str
    rule: str
    bounds: Any
    quick_cases: int = 800
    thorough_cases: int = 15000
    quick_workers: int = 4
    thorough_workers: int = 16
    quick_time: float = 90.0  # soft per-worker generation budget (seconds)
    thorough_time: float = 1000.0  # wall-clock cap per property (the case budget usually ends the run first; a cap hit means fewer cases, never a violation)
    exhaustive_only: bool = False
    assumptions: list[str] = field(default_factory=list)


COMMON_ASSUMPTIONS = [
    "CPython 3.12, anyio 4.15, trio 0.34 as installed in /venv",
    "virtual time: asyncio VLoop (selector never sleeps) / trio MockClock(autojump_threshold=0)",
    "asyncio schedules are varied through generated checkpoints/sleeps only (FIFO ready queue is documented); "
    "trio batch order is randomised through trio's own seeded scheduler hook",
    "the reference models in /verif/harness/engines were written from the property statements and the user guide",
]

PROPS: dict[str, Spec] = {}

PROPS["C17"] = Spec(
    engine="harness.engines.config_merge",
    rule="pairs of nested dicts built from a small colliding key pool (depth<=4; scalars, lists, None, dicts, "
    "empty dicts, dotted and empty keys; None for either argument; the same sub-dict at two places of an argument; the "
    "whole pair optionally 1..100 levels down a chain of dict/dict collisions; optionally a second merge of the same "
    "argument objects after an in-place change of an argument or of a freshly merged part of the first result); oracle "
    "= independent reference deep merge + purity (deep-copy equality and id() graph of nested dicts) + algebraic laws; non-trivial = a dict/dict "
    "collision at depth>=2 or a dict/scalar collision; distinct = distinct canonical JSON of the pair",
    bounds={"quick": "depth<=4 (+<=100 wrapping levels), <=4 keys per level, 4x3000 generated pairs + exhaustive small scope depth<=1",
            "thorough": "depth<=4 (+<=100 wrapping levels), <=5 keys per level, 16x150000 generated pairs + exhaustive small scope: all pairs of "
            "dicts over keys {a,b}, leaves {1,None,[],{}}, depth<=2"},
    quick_cases=3000,
    thorough_cases=150000,
    assumptions=["PyYAML-free: merge_config only", "reference merge in harness/engines/config_merge.py"],
)


_E2_BOUNDS = {"quick": "5-40 ops, <=8 contexts, depth<=4, par blocks of 2-3 tasks, both backends",
              "thorough": "5-70 ops, <=10 contexts, depth<=4, par blocks of 2-4 tasks, both backends, 16x40000 histories"}
_E2_GEN = ("histories of new-child / enter / leave / add_resource / add_resource_factory / lookup (8 lookup APIs) / "
           "parallel sub-histories over a growing context tree, drawn by a model-guided composite strategy; the "
           "reference model is applied online and every open context's get_resources view is compared after every op; "
           "every third resource value is an object whose truth value is False; ")
_E2_REENTRANT = ("; plus (C03/C04/C18) the complete family of re-entrant factories (harness/engines/reentrant.py: a factory of 1-3 "
                 "types whose callback publishes under a subset of its own pairs, x requested type x 6 lookup APIs x sync/async "
                 "factory x same/child context x backend = 6048 cells, enumerated in both tiers and sampled (5%) in the search)")

PROPS["C02"] = Spec(
    engine="harness.engines.resources", bounds=_E2_BOUNDS, quick_cases=1500, thorough_cases=40000,
    rule=_E2_GEN + "non-trivial = tree depth>=2 and an addition to a context that already had a constructed child or a "
    "sibling, followed by a lookup of that pair from a different context; distinct = distinct canonical JSON",
    assumptions=COMMON_ASSUMPTIONS,
)
PROPS["C03"] = Spec(
    engine="harness.engines.resources", bounds=_E2_BOUNDS, quick_cases=1500, thorough_cases=40000,
    rule=_E2_GEN + "40% of adds reuse a taken pair, invalid names/None/invalid types/invalid teardown callbacks are injected; "
    "non-trivial = a raising add/factory registration with >=2 types, or a generation into a context that already holds "
    "one of the factory's pairs" + _E2_REENTRANT,
    assumptions=COMMON_ASSUMPTIONS,
)
PROPS["C04"] = Spec(
    engine="harness.engines.resources", bounds=_E2_BOUNDS, quick_cases=1500, thorough_cases=40000,
    rule=_E2_GEN + "factories sync/async with 0-2 checkpoints, types by argument or annotation; par blocks race lookups of "
    "one async factory; non-trivial = a generation followed by creation of a child and a lookup of that factory in the "
    "child, or a par block with >=2 async lookups of one checkpointing factory" + _E2_REENTRANT,
    assumptions=COMMON_ASSUMPTIONS,
)
PROPS["C18"] = Spec(
    engine="harness.engines.resources", bounds=_E2_BOUNDS, quick_cases=1500, thorough_cases=40000,
    rule=_E2_GEN + "a resource_added stream is opened on every entered context and drained up to a sentinel before it is "
    "left; non-trivial = >=2 listening contexts and at least one successful and one failing add/registration" + _E2_REENTRANT,
    assumptions=COMMON_ASSUMPTIONS,
)

PROPS["C01"] = Spec(
    engine="harness.engines.teardown",
    quick_cases=4000, thorough_cases=80000,
    rule="one context block (root / nested in a root / callbacks registered from component code during start_component; "
    "optionally inside an unrelated `except` handler) with 0-8 (thorough 0-14) teardown callbacks registered through the four "
    "routes (ctx.add_teardown_callback, module-level add_teardown_callback, add_resource(teardown_callback=), @context_teardown "
    "function/method), sync / async with checkpoints and sleeps / sync returning an awaitable, with or without pass_exception, "
    "raising Exception/BaseException/KeyboardInterrupt/SystemExit/ExceptionGroup before or after their await, registering "
    "further callbacks during teardown (depth<=2); block ends by return, by raising (5 exception classes) or by cancellation at "
    "the k-th body checkpoint; oracle = reference LIFO stack over the observed registration order, begin/end trace equality, "
    "identity of the exception passed in, group-membership rule for callback exceptions, caller-visible outcome; "
    "non-trivial = >=2 callbacks and one of: raising callback, async callback, registration during teardown, non-return "
    "ending, ambient exception",
    bounds={"quick": "<=8 top-level callbacks, nesting depth<=2, 4x4000 cases", "thorough": "<=14 top-level callbacks, 16x80000 cases"},
    assumptions=COMMON_ASSUMPTIONS,
)

PROPS["C13"] = Spec(
    engine="harness.engines.lifecycle",
    quick_cases=4000, thorough_cases=100000,
    rule="complete enumeration of {add_resource, add_resource_factory, get_resource, get_resource_nowait (existing / factory / "
    "missing / missing-optional), add_teardown_callback, __aenter__, closed} x {never entered, open, inside a teardown callback, "
    "closed} x {clean, exception, cancelled, raising-teardown exit} x {root, nested} x {method, module-level API} x backend, plus "
    "all stack-corruption shapes of depth 2-4; on top, generated sequences of 0-3 (thorough 0-5) operations in every lifecycle "
    "state of one context; oracle = the statement's allowed/forbidden table, unchanged get_resources views + silent event "
    "listener + never-run callbacks after forbidden calls, closed flag per state; non-trivial = touches a cell outside the four "
    "the suite samples; distinct = distinct canonical JSON",
    bounds={"quick": "full matrix (~1000 cells) + 4x4000 generated sequences", "thorough": "full matrix + 16x100000 generated sequences"},
    assumptions=COMMON_ASSUMPTIONS,
)

_E5_ASSUME = COMMON_ASSUMPTIONS + [
    "event objects are dispatched once; queue sizes of overflow-prone subscribers are pairwise distinct so that each "
    "SignalQueueFull warning (which names the queue size) is attributed to one subscriber",
    "filtered subscribers get queues that never overflow (whether non-passing events occupy queue slots is not specified)",
]
PROPS["C11"] = Spec(
    engine="harness.engines.signals", quick_cases=1500, thorough_cases=60000,
    rule="class hierarchies with 1-4 Signal attributes (3 event classes, inherited and overriding declarations; plain owners and "
    "value-equal frozen-dataclass owners), 1-3 instances, a generated permutation of first accesses, then a sequential history of "
    "open-stream (1-3 channels) / dispatch (incl. subclass events) / consume / leave / wrong-class dispatch / class-level use / "
    "wait_event; finally all owners are dropped (with or without a live subscriber) and must be collectable; oracle = identity "
    "and pairwise distinctness of bound signals, per-subscriber FIFO model (an event reaches only its channel's subscribers), "
    "topic/source stamps, TypeError / UnboundSignal, dead weakrefs; non-trivial = (>=2 signals on one instance or >=2 instances) "
    "and dispatches on >=2 channels",
    bounds={"quick": "<=3 classes, <=4 signals each, <=3 instances, 3-25 ops, 4x1500 cases", "thorough": "3-45 ops, 16x60000 cases"},
    assumptions=_E5_ASSUME,
)
PROPS["C10"] = Spec(
    engine="harness.engines.signals", quick_cases=1500, thorough_cases=60000,
    rule="60% sequential histories (exact per-subscriber bounded-FIFO model: open with queue sizes 0-7 or large, filters, multi-signal "
    "streams, dispatch bursts, consume, leave with sentinel, iterator aclose, wait_event tasks) and 40% concurrent programs "
    "(1-3 consumer tasks with generated pacing, take-counts and cancellation, 1-2 dispatcher tasks; validity oracle: every "
    "(dispatch, subscriber) pair is either received or warned about, warnings legal only at full backlog and mandatory beyond "
    "capacity+1, received = delivered-and-passing in dispatch order); non-trivial = >=2 subscribers with different queue "
    "size/filter on one channel and an overflow or a subscriber that left while dispatching continues",
    bounds={"quick": "3-25 ops / <=3 consumers x <=2 dispatchers x <=8 steps, 4x1500 cases", "thorough": "3-45 ops / <=14 steps, 16x60000 cases"},
    assumptions=_E5_ASSUME,
)

_E3_GEN = ("component trees (1-7, thorough 1-15 components; depth<=3/4; children declared by add_component, external config or "
           "both; aliases incl. kind/name) with generated prepare()/start() scripts of sleeps (virtual ticks), checkpoints, "
           "publications (static / sync+async factory / multi-type, unique pairs), waits (get_resource), non-waiting lookups, "
           "teardown callbacks, service tasks and publication bursts; wait edges are drawn only forward in a random "
           "linearisation of the phase DAG, so every dependency pattern is acyclic by construction; ")
PROPS["C05"] = Spec(
    engine="harness.engines.components", quick_cases=2500, thorough_cases=50000,
    rule=_E3_GEN + "oracle on the (serial, event, path, virtual time) trace: constructors first, prepare-end before children, all "
    "children released at the same virtual instant, start-begin == max(children done) and after every descendant, each method "
    "once, return value/time, no timeout, ownership (visible in caller, nothing in its parent, reverse-order teardown, service "
    "tasks ended); non-trivial = (depth>=3 or a completed wait) and a phase with non-zero duration",
    bounds={"quick": "<=7 components, depth<=3, fan-out<=3, <=4 steps per phase, 4x2500", "thorough": "<=15 components, depth<=4, fan-out<=4, <=6 steps, 16x50000"},
    assumptions=COMMON_ASSUMPTIONS,
)
PROPS["C06"] = Spec(
    engine="harness.engines.components", quick_cases=2500, thorough_cases=50000,
    rule=_E3_GEN + "decoys arise from the small type x name pools (same name/other type, same type/other name), bursts of 1-8 or 40-70 "
    "(thorough 40-130) unrelated publications without a checkpoint; oracle: every wait returns exactly at max(request time, first "
    "matching publication time) with the published object / factory product; optional, synchronous and outside-startup lookups "
    "complete without any other task running in between; non-trivial = (a wait whose publication came after the request, with a "
    "decoy present) or request and publication by another component within 3 trace events at the same virtual time (race window)",
    bounds={"quick": "<=7 components, bursts<=70, 4x2500", "thorough": "<=15 components, bursts<=130, 16x50000"},
    assumptions=COMMON_ASSUMPTIONS,
)
PROPS["C07"] = Spec(
    engine="harness.engines.components", quick_cases=2500, thorough_cases=50000,
    rule=_E3_GEN + "plus exactly one fault: 60% an exception (3 classes) injected at a generated position of a generated component's "
    "constructor/prepare()/start(); 25% timeout metamorphic (run without timeout to measure the virtual duration L, then with "
    "timeout L+-k: success with the same trace, or TimeoutError exactly at T); 15% a stalling component plus a timeout; oracle: "
    "ComponentStartError phase/path/class/__cause__ identity, no ancestor start(), every begun phase ended or cancelled, no trace "
    "growth during 10^4 virtual seconds after the error, reverse-order teardown, no surviving service task; non-trivial = failing "
    "component at depth>=2 or a sibling cancelled mid-phase, or >=2 phases cancelled by the timeout",
    bounds={"quick": "<=7 components, 4x2500 (timeout cases run twice)", "thorough": "<=15 components, 16x50000"},
    assumptions=COMMON_ASSUMPTIONS,
)

PROPS["C12"] = Spec(
    engine="harness.engines.ctxstack", quick_cases=2500, thorough_cases=60000,
    rule="trees of tasks (anyio task-group children, service tasks, task-factory tasks; depth<=3) each running a generated script "
    "of nested context blocks (nest<=4) left by return / Exception / BaseException / cancellation / a raising teardown callback, "
    "checkpoints, Context() creations and observations, plus component phases creating contexts; oracle = per-task stack model: "
    "every observation of current_context() must be the task's own top (NoCurrentContext when empty), parents are the creating "
    "task's top (inside component code: the context start_component was called in), spawned tasks start from the spawner's top / a "
    "fresh context inheriting from the owner, the top is restored after every way of leaving; non-trivial = >=2 tasks inside "
    "their own context blocks at the same time, or a non-return exit at nesting depth>=2",
    bounds={"quick": "<=30 script items per case, 4x2500", "thorough": "<=60 items, 16x60000"},
    assumptions=COMMON_ASSUMPTIONS,
)

PROPS["C08"] = Spec(
    engine="harness.engines.svctasks", quick_cases=2500, thorough_cases=60000,
    rule="a root or nested context with 2-8 (thorough 2-12) registrations mixing plain teardown callbacks, resources with (async) "
    "teardown callbacks and start_service_task with teardown_action in {cancel, None, sync callable, async callable, callable "
    "raising Exception, callable raising BaseException} and task behaviour in {ends by itself after d ticks, runs until told then "
    "needs c ticks, runs until cancelled then needs c shielded ticks of cleanup, crashes after d ticks}, with/without "
    "task_status.started(), with/without a teardown callback registered inside the task's own context; block ends by return or "
    "exception after 0-6 ticks; oracle on the marker trace: action invoked once and only after everything registered later has "
    "finished, nothing registered earlier begins its teardown before the task and its context have finished, cancellation observed "
    "exactly for cancel / raising-callable tasks still running, all tasks ended before the block is left, start value, resource "
    "snapshot, crash surfaces from the root block and cancels the body; non-trivial = a service task with cleanup time>0 that has "
    "registrations both before and after it",
    bounds={"quick": "2-8 registrations, 4x2500", "thorough": "2-12 registrations, 16x60000"},
    assumptions=COMMON_ASSUMPTIONS,
)

PROPS["C09"] = Spec(
    engine="harness.engines.taskfactory", quick_cases=2500, thorough_cases=60000,
    rule="a task factory started in a root or nested context F (0-2 resources before, more added after; handler absent / truthy / "
    "falsy / None-returning; a function or a callable object, some with a False truth value) and 2-14 (thorough 2-24) operations: spawn via start_task / start_task_soon (with task_status, names) "
    "from F, from a nested child context holding other resources, or from inside another factory task; task outcomes return after "
    "d / raise after d / wait for an event / run until cancelled; cancel(h), wait_finished(h), sleeps, set-event, and observations "
    "of all_task_handles() at instants (k/64 offsets) where no task can be ending; F is left while 0-n tasks still run; optionally "
    "one exception the handler does not claim; spawn attempts after F was left; oracle: handle set == spawned-and-not-ended (also after the caller "
    "emptied the set a previous call returned), "
    "wait_finished returns at max(call, end), cancel ends only its task, each task sees exactly F's resources as of factory start "
    "in a fresh context inheriting from the factory's, F is left at max(end times) without cancelling, handler called once per "
    "escaping exception, unclaimed exception surfaces from the root context; non-trivial = >=2 tasks alive at a cancel or at "
    "teardown, or a spawn from a context other than F",
    bounds={"quick": "<=8 tasks, 2-14 ops, 4x2500", "thorough": "2-24 ops, 16x60000"},
    assumptions=COMMON_ASSUMPTIONS,
)

PROPS["C14"] = Spec(
    engine="harness.engines.compconfig", quick_cases=1500, thorough_cases=40000,
    rule="8 spec-driven component classes (reachable as class objects, `module:attr` references and real entry points) whose "
    "constructors call add_component() for 0-3 children with generated kwargs (scalars, lists, None, nested dicts) and types "
    "spelled as class / reference / entry point / omitted (alias `epN` or `epN/name`), plus a generated external `components` "
    "tree that overrides scalars, extends nested dicts, overrides types, adds config-only children ({...} and None) to depth 3 "
    "(thorough 4); every component publishes marker resources in prepare() and/or start() under `default` or explicit names; "
    "oracle: constructor kwargs == reference deep merge(hard-coded, external) minus type/components for every path, tree of "
    "(path, class) == reference expansion, resource names follow the alias remapping rule, the configuration object is unchanged "
    "(deep comparison) and a second start_component with the same object builds the same tree; non-trivial = (depth>=2 and a key "
    "holding dicts on both sides) or a config-only child with its own components",
    bounds={"quick": "8 classes, depth<=3, 4x1500", "thorough": "depth<=4, 16x40000"},
    assumptions=COMMON_ASSUMPTIONS + ["entry points come from harness/fakedist/verif_c14-0.0.dist-info through importlib.metadata"],
)

PROPS["C16"] = Spec(
    engine="harness.engines.cli", quick_cases=1500, thorough_cases=60000,
    rule="1-3 YAML files rendered with PyYAML from generated nested dicts (overlapping top-level, component and service sections; "
    "scalars of every YAML type, lists, None; !Env / !TextFile / !BinaryFile tags with set and unset variables, paths with spaces, "
    "arbitrary bytes), 0-4 --set overrides on existing and new nested paths with escaped dots and YAML-typed values (flow "
    "lists/dicts), service layouts {top-level component, one, several with/without default}, --service and ASPHALT_SERVICE in "
    "{absent, existing, missing}; the command is run in-process through click with run_application replaced by a recorder; the "
    "selection ladder x layouts x flag x env (350 combinations) is enumerated completely on every run; oracle: reference merge of "
    "the generator's Python values, independently written escaped-dot override, ladder, service-over-top-level merge; recorder "
    "called once with exactly (type, component config, options) - types compared strictly (True != 1) - or, for error cases, an "
    "error and no call; non-trivial = (>=2 files with a nested key on both sides) or an escaped dot or both --service and the "
    "variable or a service section overriding a nested top-level key",
    bounds={"quick": "full ladder + 4x1500 generated invocations", "thorough": "full ladder + 16x50000"},
    assumptions=["PyYAML is trusted on both sides (rendering the files and parsing them)", "click's argument parsing is trusted",
                 "error *text* is not compared (click 8.5 writes it to stderr), only that the command fails and starts nothing",
                 "a top-level `component` is never mixed with `services` (the guide says the one replaces the other)",
                 "--set paths never go through a non-mapping"],
)

PROPS["C15"] = Spec(
    engine="harness.engines.runner", quick_cases=3500, thorough_cases=50000,
    rule="a 1-4 (thorough 1-6) component application (CLI or not) whose prepare()/start() scripts register teardown callbacks (with "
    "and without pass_exception) and service tasks between sleeps, run through run_application under virtual time with one "
    "generated ending: run() returning None/0/1/5/127/128/255/-1/'x'/1.5/IntEnum members/int-subclass instances or raising; an exception while creating/preparing/"
    "starting any component; a stalling component plus start_timeout; SIGINT/SIGTERM raised in-process from a component's phase, "
    "from a service task before startup completes, or after startup (non-CLI); a service task crashing during or after startup; "
    "oracle: the statement's outcome table (plain return / SystemExit(n) / SystemExit(1) + exactly one warning / the original "
    "exception object; either documented outcome for a crash during startup), run() never called after a failed startup, every "
    "registered teardown callback and service task finalised exactly once in reverse registration order; non-trivial = >=2 "
    "components registering callbacks and an ending other than a clean CLI return",
    bounds={"quick": "<=4 components, <=3 steps per phase, 4x3500", "thorough": "<=6 components, 16x50000"},
    assumptions=COMMON_ASSUMPTIONS + ["signals are raised with signal.raise_signal in the main thread of the worker process; at most one per run"],
)

PROPS["C19"] = Spec(
    engine="harness.engines.injection", quick_cases=2000, thorough_cases=60000,
    rule="function source is generated and exec'd: 0-3 ordinary parameters (positional-or-keyword / keyword-only, with/without "
    "defaults), 1-3 injected parameters (resource() / resource(name); annotations T, Optional[T], T | None, string forward references "
    "to module-level and to function-local classes), sync or async, plain function or method; resources are static, made by a "
    "sync or async factory, inherited from the parent context, missing, or published only in a side context (a child entered "
    "and left before the call: nothing matches); the call happens in the same context, a nested one, another task, a component's "
    "start() or without any context, optionally after another context (nested, or with an explicit non-current parent) was entered "
    "and left; 12% decoration-time negatives (positional-only, unannotated, uncalled marker); "
    "differential oracle: decorated call vs undecorated call fed by explicit get_resource / get_resource_nowait lookups in "
    "parameter order from an identically rebuilt history - return values (identity classes of injected objects, pass-through "
    "arguments), exception classes, body-ran counter, factory call counters and resource_added events must agree; plus an absolute "
    "oracle: the result predicted from the case alone (which object / None / ResourceNotFound / AsyncResourceError per parameter, "
    "first failure in signature order, second call after late publication); negatives "
    "raise TypeError at decoration; non-trivial = >=2 injected parameters with different names, or a missing optional, or a "
    "factory-made / inherited resource",
    bounds={"quick": "4x2000 (each case runs twice)", "thorough": "16x60000"},
    assumptions=COMMON_ASSUMPTIONS + ["injected parameters are never also passed by the caller"],
)

# ---- late additions that apply to every engine (DESIGN.md sections 8 and 10) ---------------------
_LARGE = {
    "C01": "4% large cases: 17-70 callbacks on one context, or one callback registering 33-64 more during teardown",
    "C02": "8% of histories start from a table of 20-70 resources / factories; 4% contain a chain of 33-70 child contexts alive at once",
    "C03": "3% of histories start from a table of 20-70 entries (with a never-reading default-queue subscriber); registrations under 11-14 types enumerated",
    "C04": "8% of histories start from a table of 20-70 entries; retry family with generations of 35/100 virtual seconds and 15-20 earlier generations",
    "C05": "2% large trees: one component with 33-39 children, or a chain 34-40 levels deep",
    "C06": "2% large trees; 2% of steps keep 20-100 contexts alive at once; bursts of up to 70 (thorough 130) publications",
    "C07": "4% large trees (most siblings stalled in stall mode); 15% of timeout cases with start-ups of 31-100 virtual seconds",
    "C08": "4% large cases: 34-70 registrations on one context; clean-ups of 35/100 virtual seconds",
    "C09": "5% large cases: 11-25 tasks still running (for up to 100 virtual seconds) when the factory's context is left",
    "C10": "8% of bursts are 18-60 events long; waiters followed by long non-matching bursts; one stream over the signals of 20-100 owners",
    "C11": "one stream over the signals of 20-100 owners (1% of operations)",
    "C12": "3% deep chains: 20-90 nested contexts in one task, unwound by return or by an exception",
    "C13": "2.5% scale cases: 20-70 nested contexts, or a chain of 20-70 teardown callbacks each registering the next",
    "C14": "4% option mappings 7-20 levels deep; 3% chains of 10-25 configuration-only components",
    "C15": "3% of phases register 32-80 callbacks; 2.5% of nested callbacks register 33-64 more during teardown",
    "C16": "6% of two-file component layouts hold a section 9-30 levels deep (half of them with a --set path of that length)",
    "C17": "20% of pairs sit 1-100 levels down a chain of dict/dict collisions",
    "C18": "3% of histories start from a table of 20-70 entries (with a never-reading default-queue subscriber subscribed first); 4% contain a chain of 33-70 child contexts",
    "C19": "6% async factories that take 35/100 virtual seconds; 6% tasks with 16-40 earlier failing injected calls",
}
for _pid, _txt in _LARGE.items():
    PROPS[_pid].bounds = {_tier: _b + "; " + _txt for _tier, _b in PROPS[_pid].bounds.items()}  # (a fresh dict: some specs share one)
