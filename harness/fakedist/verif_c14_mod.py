"""Spec-driven components for the C14 check.

K0..K7 are ordinary Component subclasses whose hard-coded children, published resources and
recording behaviour are looked up in the case that is currently being executed (CURRENT).
They are reachable as class objects, as ``verif_c14_mod:Kn`` references and as entry points
``epN`` (see the dist-info directory next to this file).
"""

from __future__ import annotations

from typing import Any

from asphalt.core import Component, add_resource, current_context

CURRENT: Any = None  # set by harness.engines.compconfig for the duration of one run


def _spell(child: dict) -> Any:
    j = child["cls"]
    how = child["type"]
    if how == "class":
        return CLASSES[j]
    if how == "ref":
        return f"verif_c14_mod:K{j}"
    if how == "entrypoint":
        return f"ep{j}"
    return None  # omitted: derived from the alias


class _Base(Component):
    IDX = -1

    def __init__(self, **kwargs: Any) -> None:
        run = CURRENT
        spec = run.case["classes"][self.IDX]
        run.created.append((type(self), kwargs, self))
        for k, child in enumerate(spec["children"]):
            t = _spell(child)
            kwargs = run.hard_kwargs(self.IDX, k, child["kwargs"])
            if t is None:
                self.add_component(child["alias"], **kwargs)
            else:
                self.add_component(child["alias"], t, **kwargs)

    async def prepare(self) -> None:
        self._publish("prepare")

    async def start(self) -> None:
        self._publish("start")

    def _publish(self, phase: str) -> None:
        run = CURRENT
        path = current_context().path  # type: ignore[attr-defined]
        run.instance_paths[id(self)] = path
        spec = run.case["classes"][self.IDX]
        for pub in spec["publish"]:
            if pub["phase"] == phase:
                add_resource(run.marker(path, pub), pub["name"], types=[run.marker_type(path)])


CLASSES = [type(f"K{i}", (_Base,), {"IDX": i}) for i in range(8)]
for _i, _c in enumerate(CLASSES):
    globals()[f"K{_i}"] = _c
    _c.__module__ = __name__
