"""Recording CLI component for the real-process slice of the C16 check."""

from __future__ import annotations

import json
import os
from typing import Any

from asphalt.core import CLIApplicationComponent


class Rec(CLIApplicationComponent):
    def __init__(self, **kwargs: Any) -> None:
        self.kwargs = kwargs

    async def run(self) -> int:
        with open(os.environ["VERIF_CLI_OUT"], "w") as fh:
            json.dump(self.kwargs, fh, default=lambda b: {"$bytes": list(b)})
        return 0
