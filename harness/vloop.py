"""Harness-owned time (DESIGN 2.2) and schedules (2.3).

``run_virtual(backend, fn, *args, sched_seed=0)`` runs ``fn`` inside ONE ``anyio.run`` on
the named backend under virtual time:

* asyncio: ``VLoop`` - a ``SelectorEventLoop`` whose ``time()`` is a virtual clock and
  whose selector never sleeps: it polls real I/O with timeout 0 (self-pipe for signals
  keeps working) and otherwise advances the virtual clock by the requested timeout.  A
  ``select(None)`` with nothing ready is a deadlock and raises ``Deadlock``.
* trio: ``MockClock(autojump_threshold=0)`` plus trio's own deterministic-scheduling
  switch, reseeded from ``sched_seed`` so that batch order is a function of the case.

``backend_options(backend, sched_seed)`` returns the same thing as a dict for code that
calls ``anyio.run`` itself (``run_application``).
"""

from __future__ import annotations

import asyncio
import selectors
from typing import Any, Callable

import anyio

WATCHDOG_VIRTUAL_SECONDS = 10**7


class Deadlock(BaseException):
    """No ready callback, no timer and no I/O: the program can never make progress."""


class _VSelector:
    """Wraps a real selector; never blocks; advances the loop's virtual clock instead."""

    def __init__(self, loop: "VLoop") -> None:
        self._sel = selectors.DefaultSelector()
        self._loop = loop

    def register(self, *a: Any, **k: Any) -> Any:
        return self._sel.register(*a, **k)

    def unregister(self, *a: Any, **k: Any) -> Any:
        return self._sel.unregister(*a, **k)

    def modify(self, *a: Any, **k: Any) -> Any:
        return self._sel.modify(*a, **k)

    def get_key(self, *a: Any, **k: Any) -> Any:
        return self._sel.get_key(*a, **k)

    def get_map(self) -> Any:
        return self._sel.get_map()

    def close(self) -> None:
        self._sel.close()

    def select(self, timeout: float | None = None) -> Any:
        events = self._sel.select(0)
        if events:
            return events
        if timeout is None:
            raise Deadlock("asyncio loop has nothing to wait for")
        if timeout >= 3600 * 24:
            # asyncio caps the select timeout at one day; if the only timers left are
            # "sleep forever" ones (when == inf) nothing can ever happen again
            whens = [h._when for h in self._loop._scheduled if not h._cancelled]
            if whens and min(whens) == float("inf"):
                raise Deadlock("asyncio loop only has infinite timers left")
        if timeout > 0:
            self._loop._vnow += timeout
        return []


class VLoop(asyncio.SelectorEventLoop):
    def __init__(self) -> None:
        self._vnow = 0.0
        super().__init__(selector=_VSelector(self))  # type: ignore[arg-type]
        # asyncio rounds timers with this resolution; keep integer ticks exact
        self._clock_resolution = 1e-9

    def time(self) -> float:
        return self._vnow


def _seed_trio(sched_seed: int) -> None:
    import trio._core._run as tr

    tr._ALLOW_DETERMINISTIC_SCHEDULING = True  # type: ignore[misc]
    tr._r.seed(sched_seed)


def _trio_deadlock_detector() -> Any:
    """Under MockClock(autojump_threshold=0) a trio run in which every task is blocked and no
    deadline exists spins forever (there is nothing to jump to): a deadlock that not even
    cancellation resolves (e.g. a shielded wait).  The detector then resumes every blocked task
    below the main task with ``Deadlock`` so that the run unwinds instead of hanging in real time."""
    import outcome
    import trio
    from trio._core._run import GLOBAL_RUN_CONTEXT

    class Detector(trio.abc.Instrument):
        def before_io_wait(self, timeout: float) -> None:
            runner = GLOBAL_RUN_CONTEXT.runner
            # nothing runnable, no deadline the autojump clock could jump to, nobody in
            # wait_all_tasks_blocked: the program can only be woken from outside
            if runner.runq or runner.waiting_for_idle or runner.deadlines.next_deadline() != float("inf"):
                return
            if runner.entry_queue.queue or runner.entry_queue.idempotent_queue:
                return
            main = runner.main_task
            stack = [main]
            while stack:
                task = stack.pop()
                for nursery in task.child_nurseries:
                    stack.extend(nursery.child_tasks)
                if task._abort_func is not None and task._next_send_fn is None:
                    task._abort_func = None
                    trio.lowlevel.reschedule(task, outcome.Error(Deadlock("trio: every task is blocked and there is no deadline")))

    return Detector()


def backend_options(backend: str, sched_seed: int = 0) -> dict[str, Any]:
    if backend == "asyncio":
        return {"loop_factory": VLoop}
    elif backend == "trio":
        import trio.testing

        _seed_trio(sched_seed)
        return {"clock": trio.testing.MockClock(autojump_threshold=0), "instruments": [_trio_deadlock_detector()]}
    raise ValueError(backend)


def run_virtual(
    backend: str,
    fn: Callable[..., Any],
    *args: Any,
    sched_seed: int = 0,
    watchdog: bool = True,
) -> Any:
    """Run ``fn(*args)`` under virtual time.  Raises Deadlock when the program hangs."""

    async def main() -> Any:
        if not watchdog:
            return await fn(*args)

        # A virtual watchdog turns "blocked forever" into Deadlock on both backends
        # (on trio the autojump clock needs some deadline to jump to).
        result: Any = None
        with anyio.move_on_after(WATCHDOG_VIRTUAL_SECONDS) as scope:
            result = await fn(*args)
        if scope.cancelled_caught:
            raise Deadlock("virtual watchdog expired")
        return result

    try:
        return anyio.run(main, backend=backend, backend_options=backend_options(backend, sched_seed))
    except BaseExceptionGroup as exc:
        # the trio detector injects Deadlock into several tasks: report it as one Deadlock
        leaves = _leaves(exc)
        dl = [e for e in leaves if isinstance(e, Deadlock)]
        if dl:
            raise dl[0] from None
        raise


def _leaves(exc: BaseException) -> list[BaseException]:
    if isinstance(exc, BaseExceptionGroup):
        out: list[BaseException] = []
        for e in exc.exceptions:
            out.extend(_leaves(e))
        return out
    return [exc]


def now() -> float:
    return anyio.current_time()


async def checkpoints(n: int) -> None:
    for _ in range(n):
        await anyio.lowlevel.checkpoint()


async def vsleep(ticks: float) -> None:
    if ticks > 0:
        await anyio.sleep(ticks)
