"""Cached primitive strategies.

Building a strategy object inside a ``composite`` body on every draw costs far more than
drawing from it (validation, recursive-property computation); every engine therefore draws
only from strategies built once.
"""

from __future__ import annotations

from functools import lru_cache
from typing import Any, Sequence

from hypothesis import strategies as st


@lru_cache(maxsize=None)
def ints(lo: int, hi: int) -> st.SearchStrategy:
    return st.integers(lo, hi)


@lru_cache(maxsize=None)
def sampled(values: tuple) -> st.SearchStrategy:
    return st.sampled_from(values)


BOOL = st.booleans()
SEED = st.integers(0, 2**16)
BACKEND = st.sampled_from(("asyncio", "trio"))


class D:
    """Thin convenience wrapper around ``draw`` for composite bodies."""

    def __init__(self, draw: Any) -> None:
        self.draw = draw

    def int(self, lo: int, hi: int) -> int:
        return self.draw(ints(lo, hi))

    def bool(self) -> bool:
        return self.draw(BOOL)

    def pick(self, values: Sequence) -> Any:
        values = list(values)
        return values[self.draw(ints(0, len(values) - 1))]

    def pct(self, p: int) -> bool:
        """True with probability p percent."""
        return self.draw(ints(0, 99)) < p

    def weighted(self, pairs: Sequence[tuple[Any, int]]) -> Any:
        """pairs = [(value, weight), ...]"""
        total = sum(w for _, w in pairs)
        x = self.draw(ints(0, total - 1))
        for v, w in pairs:
            if x < w:
                return v
            x -= w
        raise AssertionError
