"""Shared data types for engines and driver."""

from __future__ import annotations

import hashlib
import json
import traceback
from dataclasses import dataclass, field
from typing import Any


@dataclass
class Disc:
    """One discrepancy between the real code and the reference model.

    ``cls``: discrepancy class (which clause is contradicted); a property asserts only its
    own classes.  ``bucket``: root-cause key (class + normalised parameters) used to keep
    distinct root causes apart and to continue the search behind a found one.
    """

    cls: str
    bucket: str
    msg: str

    def to_json(self) -> dict[str, str]:
        return {"cls": self.cls, "bucket": self.bucket, "msg": self.msg}


@dataclass
class Outcome:
    discs: list[Disc] = field(default_factory=list)
    nontrivial: bool = False
    labels: list[str] = field(default_factory=list)
    trace: Any = None

    def add(self, cls: str, bucket: str, msg: str) -> None:
        self.discs.append(Disc(cls, bucket, msg))


class HarnessError(Exception):
    """A bug or an environment problem in the harness itself: exit 2, never VIOLATION."""


def canon(case: Any) -> str:
    return json.dumps(case, sort_keys=True, separators=(",", ":"), default=repr)


def chash(case: Any) -> str:
    return hashlib.sha1(canon(case).encode()).hexdigest()[:16]


def innermost_is_harness(exc: BaseException) -> bool:
    """True if the innermost traceback frame of ``exc`` lies in /verif/harness."""
    tb = traceback.extract_tb(exc.__traceback__)
    if not tb:
        return True
    return "/harness/" in tb[-1].filename


def short_exc(exc: BaseException) -> str:
    tb = traceback.extract_tb(exc.__traceback__)
    where = ""
    if tb:
        f = tb[-1]
        where = f" at {f.filename.rsplit('/', 1)[-1]}:{f.lineno} in {f.name}"
    return f"{type(exc).__name__}: {exc}{where}"


def flatten_exc(exc: BaseException | None) -> list[BaseException]:
    """All leaf exceptions in the tree of (possibly nested) exception groups."""
    if exc is None:
        return []
    if isinstance(exc, BaseExceptionGroup):
        out: list[BaseException] = []
        for e in exc.exceptions:
            out.extend(flatten_exc(e))
        return out
    return [exc]


def all_groups(exc: BaseException | None) -> list[BaseExceptionGroup]:
    if isinstance(exc, BaseExceptionGroup):
        out = [exc]
        for e in exc.exceptions:
            out.extend(all_groups(e))
        return out
    return []
