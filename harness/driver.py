"""Check driver: seeds, sharding, Hypothesis rounds, root-cause bucketing, replay,
regressions, known findings, evidence (DESIGN 2.1, 2.5, 2.6).

Exit status: 0 property held on everything explored; 1 + ``VIOLATION`` lines; 2 harness
error / inconclusive (never a VIOLATION line).
"""

from __future__ import annotations

import argparse
import fnmatch
import glob
import importlib
import json
import multiprocessing
import os
import shutil
import sys
import tempfile
import time
import traceback
from collections import Counter
from typing import Any

VERIF = os.path.dirname(os.path.dirname(os.path.abspath(__file__)))
MAX_ROOT_CAUSES = 4  # per worker and run
CHUNK = 15000  # generated cases per Hypothesis run
SHRINK_CAP_QUICK_S = 25.0
SHRINK_CAP_THOROUGH_S = 240.0


class _Abort(BaseException):
    """Harness error: leaves Hypothesis immediately."""


class _Stop(BaseException):
    """Soft time budget reached: stop generating (fewer cases, never a violation)."""


class _StopShrink(BaseException):
    """Shrink budget reached: keep the smallest failing case seen so far."""


class _Violation(Exception):
    pass


class _CaseHang(BaseException):
    """The code under test kept one case busy for CASE_CPU_LIMIT_S of CPU time."""


CASE_CPU_LIMIT_S = 30.0  # user CPU time of ONE case (they take milliseconds); not wall-clock, so load cannot trip it
_hang = {"fired": False, "armed": False}


def _on_case_cpu_limit(signum: int, frame: Any) -> None:
    _hang["fired"] = True
    raise _CaseHang(f"one case used more than {CASE_CPU_LIMIT_S:.0f}s of CPU time")


def _load_spec(prop: str) -> Any:
    from harness.props import PROPS

    if prop not in PROPS:
        print(f"unknown property {prop}", file=sys.stderr)
        sys.exit(2)
    return PROPS[prop]


def _check_repo_import() -> str:
    import asphalt.core

    want = os.path.realpath(os.environ.get("VERIF_REPO_SRC", "/repo/src"))
    got = os.path.realpath(asphalt.core.__file__)
    if not got.startswith(want + os.sep):
        print(f"harness error: asphalt.core imported from {got}, expected under {want}", file=sys.stderr)
        sys.exit(2)
    return got


def _quiet() -> None:
    import logging
    import warnings

    logging.disable(logging.CRITICAL)
    warnings.simplefilter("ignore")


def run_one(eng: Any, case: Any, prop: str) -> Any:
    """Execute one case; harness-side exceptions become _Abort."""
    import signal as _sig

    from harness.core import HarnessError, Outcome

    def hang_outcome() -> Any:
        # a busy loop in the code under test (blocking waits are the virtual clocks' business): a violation
        # of whatever the property promises about this history, reported with the case as replay
        o = Outcome()
        o.add("hang", "hang:case-exceeded-cpu-limit", f"the case did not finish within {CASE_CPU_LIMIT_S:.0f}s of CPU time "
              f"(a loop in the code under test that never ends)")
        o.nontrivial = True
        o.labels = ["hang"]
        return o

    if not _hang["armed"]:
        _sig.signal(_sig.SIGVTALRM, _on_case_cpu_limit)
        _hang["armed"] = True
    _hang["fired"] = False
    # (repeating: the code under test may swallow the first interruption in a catch-all handler)
    _sig.setitimer(_sig.ITIMER_VIRTUAL, CASE_CPU_LIMIT_S, 2.0)
    try:
        out = _run_one_inner(eng, case, prop)
    except BaseException:
        if _hang["fired"]:
            return hang_outcome()
        raise
    finally:
        _sig.setitimer(_sig.ITIMER_VIRTUAL, 0)
    if _hang["fired"]:
        return hang_outcome()
    return out


def _run_one_inner(eng: Any, case: Any, prop: str) -> Any:
    from harness.core import HarnessError, Outcome

    try:
        out = eng.run_case(case, prop)
    except _Abort:
        raise
    except HarnessError as exc:
        raise _Abort(f"{exc}\ncase={json.dumps(case, sort_keys=True, default=repr)[:3000]}") from exc
    except BaseException as exc:  # interpreter bug: never a violation
        tb = "".join(traceback.format_exception(exc))
        raise _Abort(
            f"interpreter raised {type(exc).__name__}: {exc}\n{tb}\ncase="
            f"{json.dumps(case, sort_keys=True, default=repr)[:3000]}"
        ) from exc
    assert isinstance(out, Outcome)
    return out


class Stats:
    def __init__(self) -> None:
        self.evaluations = 0
        self.generated = 0
        self.nontrivial: set[str] = set()
        self.labels: Counter[str] = Counter()
        self.samples: list[Any] = []
        self.excluded_hits: Counter[str] = Counter()

    def record(self, case: Any, out: Any, generating: bool) -> None:
        from harness.core import chash

        self.evaluations += 1
        if generating:
            self.generated += 1
            for lab in out.labels:
                self.labels[lab] += 1
        if out.nontrivial:
            h = chash(case)
            if h not in self.nontrivial:
                self.nontrivial.add(h)
                if len(self.samples) < 3 and generating:
                    self.samples.append({"case": case, "trace": _clip(out.trace)})


def _clip(trace: Any, limit: int = 4000) -> Any:
    s = json.dumps(trace, default=repr)
    if len(s) <= limit:
        return json.loads(s)
    return {"clipped": s[:limit] + "..."}


def _is_excluded(bucket: str, excluded: list[str]) -> bool:
    return any(fnmatch.fnmatchcase(bucket, pat) for pat in excluded)


def _worker(prop: str, tier: str, w: int, nworkers: int, seed: int, budget: int,
            time_budget: float, known_patterns: list[str], outpath: str) -> None:
    result: dict[str, Any] = {"worker": w, "status": "ok"}
    try:
        import faulthandler
        import signal as _signal

        faulthandler.register(_signal.SIGUSR1, all_threads=True)  # kill -USR1 <pid> dumps the stack
        try:
            import resource as _resource

            # a loop in the code under test that allocates without end becomes a MemoryError inside the
            # case (reported like any other exception) instead of taking the machine down
            _resource.setrlimit(_resource.RLIMIT_AS, (12 << 30, 12 << 30))
        except Exception:
            pass
        _quiet()
        import hypothesis
        from hypothesis import HealthCheck, Phase, Verbosity, given, settings

        from harness.core import canon, chash

        spec = _load_spec(prop)
        eng = importlib.import_module(spec.engine)
        stats = Stats()
        found: list[dict[str, Any]] = []
        excluded = list(known_patterns)
        t_start = time.monotonic()
        shrink_cap = SHRINK_CAP_QUICK_S if tier == "quick" else SHRINK_CAP_THOROUGH_S
        # tools/automut.py only: VERIF_SCREEN names a flag file; the first violation of any worker ends
        # the run at once, unshrunk (never set by a registered command)
        screen = os.environ.get("VERIF_SCREEN") or None

        def judge(case: Any, out: Any, target: str | None) -> Any:
            live = []
            for d in out.discs:
                if _is_excluded(d.bucket, excluded):
                    stats.excluded_hits[d.bucket] += 1
                else:
                    live.append(d)
            if not live:
                return None
            if target is not None:
                for d in live:
                    if d.bucket == target:
                        return d
                return None
            return sorted(live, key=lambda d: d.bucket)[0]

        # --- finite sub-domains: complete enumeration, sharded -----------------------
        exhaustive_n = 0
        hung = False
        if hasattr(eng, "exhaustive_cases"):
            best: dict[str, dict[str, Any]] = {}
            for case in eng.exhaustive_cases(prop, tier, w, nworkers):
                out = run_one(eng, case, prop)
                stats.record(case, out, True)
                exhaustive_n += 1
                for d in out.discs:
                    if _is_excluded(d.bucket, excluded):
                        stats.excluded_hits[d.bucket] += 1
                        continue
                    cur = best.get(d.bucket)
                    if cur is None or len(canon(case)) < len(canon(cur["case"])):
                        best[d.bucket] = {"bucket": d.bucket, "cls": d.cls, "msg": d.msg, "case": case}
                if any(d.cls == "hang" for d in out.discs):
                    hung = True
                    break  # (process-wide state may be damaged; one hanging cell is enough)
            for b in sorted(best)[:MAX_ROOT_CAUSES]:
                found.append(best[b])
                excluded.append(_escape(b))
        result["exhaustive_n"] = exhaustive_n

        # --- generated search --------------------------------------------------------
        strat = eng.strategy(prop, tier)
        remaining = budget
        rnd = 0
        timed_out = False
        while (remaining > 0 and len(found) < MAX_ROOT_CAUSES and not timed_out and not hung
               and time.monotonic() - t_start < time_budget):
            st8: dict[str, Any] = {"target": None, "t_fail": None, "seen_fail": {}, "last": None, "gen": 0, "in_case": False}

            def on_alarm(signum: int, frame: Any) -> None:
                # Hypothesis' shrinker can spend minutes without calling the test function at all
                # (replaying its cache): the cap on shrinking must not depend on body() being entered.
                # Never raise into a running case (an event loop may be active): body() looks itself.
                if st8["in_case"] or st8["target"] is None:
                    return
                if time.monotonic() - st8["t_fail"] > shrink_cap:
                    raise _StopShrink()

            def body(case: Any) -> None:
                generating = st8["target"] is None
                if generating and time.monotonic() - t_start > time_budget:
                    raise _Stop()
                if screen and st8["gen"] % 25 == 0 and os.path.exists(screen):
                    raise _Stop()  # (screening: another worker has already found a violation)
                if not generating and (time.monotonic() - st8["t_fail"] > shrink_cap
                                       or time.monotonic() - t_start > time_budget + shrink_cap):
                    # shrink budget used: leave Hypothesis with the smallest failing case seen so
                    # far (its shrinker only ever moves to smaller cases); harness.minimize goes on
                    raise _StopShrink()
                st8["in_case"] = True
                try:
                    out = run_one(eng, case, prop)
                finally:
                    st8["in_case"] = False
                stats.record(case, out, generating)
                if generating:
                    st8["gen"] += 1
                d = judge(case, out, st8["target"])
                if d is None:
                    return
                h = chash(case)
                if st8["target"] is None:
                    st8["target"] = d.bucket
                    st8["t_fail"] = time.monotonic()
                st8["seen_fail"][h] = True
                st8["last"] = {"bucket": d.bucket, "cls": d.cls, "msg": d.msg, "case": case}
                if d.cls == "hang":
                    # the interrupted event loop may have left process-wide state behind: report this case
                    # unshrunk and let the worker end
                    st8["hang"] = True
                    raise _StopShrink()
                if screen:
                    open(screen, "w").close()
                    raise _StopShrink()
                raise _Violation(d.msg)

            test = given(case=strat)(body)
            # (chunks keep Hypothesis' per-run bookkeeping small; every chunk has its own seed)
            test = settings(
                max_examples=min(remaining, CHUNK),
                database=None,
                deadline=None,
                derandomize=False,
                report_multiple_bugs=False,
                suppress_health_check=list(HealthCheck),
                phases=[Phase.generate, Phase.shrink],
                verbosity=Verbosity.quiet,
            )(test)
            test = hypothesis.seed(seed * 1009 + w + 7919 * rnd)(test)
            _signal.signal(_signal.SIGALRM, on_alarm)
            _signal.setitimer(_signal.ITIMER_REAL, 2.0, 2.0)
            try:
                try:
                    test()
                finally:
                    _signal.setitimer(_signal.ITIMER_REAL, 0)
            except (_Violation, _StopShrink):
                pass
            except _Stop:
                timed_out = True
            except _Abort:
                raise
            except BaseException as exc:
                # Hypothesis-level complaint (e.g. flaky): treat a recorded failure as found,
                # anything else as a harness problem.
                if st8["last"] is None:
                    raise _Abort(f"hypothesis raised {type(exc).__name__}: {exc}") from exc
                result.setdefault("notes", []).append(f"hypothesis: {type(exc).__name__}: {str(exc)[:300]}")
            remaining -= max(st8["gen"], 1)
            if st8["last"] is not None and (screen or st8.get("hang")):
                found.append(st8["last"])
                break
            if st8["last"] is not None:
                from harness.minimize import minimize

                st8["last"]["case"] = minimize(eng, prop, st8["last"]["case"], st8["last"]["bucket"], run_one,
                                               20.0 if tier == "quick" else 120.0)
                found.append(st8["last"])
                excluded.append(_escape(st8["last"]["bucket"]))
            elif timed_out:
                break
            rnd += 1

        result.update(
            evaluations=stats.evaluations,
            generated=stats.generated,
            nontrivial=sorted(stats.nontrivial),
            labels=dict(stats.labels),
            samples=stats.samples,
            excluded_hits=dict(stats.excluded_hits),
            found=found,
            timed_out=timed_out,
            wall_s=time.monotonic() - t_start,
        )
    except _Abort as exc:
        result["status"] = "harness_error"
        result["error"] = str(exc)
    except BaseException as exc:
        result["status"] = "harness_error"
        result["error"] = "".join(traceback.format_exception(exc))
    try:
        import sys as _sys

        mod = _sys.modules.get(_load_spec(prop).engine)
        if mod is not None and hasattr(mod, "cleanup"):
            mod.cleanup()
    except Exception:
        pass
    with open(outpath, "w") as f:
        json.dump(result, f, default=repr)


def _escape(bucket: str) -> str:
    return "".join("[" + c + "]" if c in "*?[" else c for c in bucket)


def _read_known(prop: str) -> list[dict[str, str]]:
    """known: property=<id> bucket=<glob> probe=<file> <text>"""
    path = os.path.join(VERIF, "KNOWN_FINDINGS.txt")
    out = []
    if not os.path.exists(path):
        return out
    for line in open(path):
        line = line.strip()
        if not line.startswith("known:"):
            continue
        fields = dict(tok.split("=", 1) for tok in line.split() if "=" in tok)
        if fields.get("property") != prop:
            continue
        text = line.split("::", 1)[1].strip() if "::" in line else line
        out.append({"bucket": fields.get("bucket", ""), "probe": fields.get("probe", ""), "text": text})
    return out


def _replay_file(eng: Any, prop: str, path: str) -> list[Any]:
    data = json.load(open(path))
    case = data["case"] if isinstance(data, dict) and "case" in data else data
    out = run_one(eng, case, prop)
    return out.discs


def main(argv: list[str] | None = None) -> int:
    ap = argparse.ArgumentParser()
    ap.add_argument("prop")
    ap.add_argument("--tier", default=os.environ.get("VERIF_TIER") or "quick", choices=["quick", "thorough"])
    ap.add_argument("--replay")
    ap.add_argument("--workers", type=int)
    ap.add_argument("--cases", type=int, help="override per-worker case budget")
    ap.add_argument("--no-evidence", action="store_true")
    args = ap.parse_args(argv)

    prop = args.prop
    seed = int(os.environ.get("VERIF_SEED") or "1")
    t0 = time.monotonic()
    spec = _load_spec(prop)
    _check_repo_import()
    _quiet()
    try:
        eng = importlib.import_module(spec.engine)
    except Exception:
        traceback.print_exc()
        print("harness error: engine import failed", file=sys.stderr)
        return 2

    # ---- replay mode: no Hypothesis, no randomness ----------------------------------
    if args.replay:
        try:
            discs = _replay_file(eng, prop, args.replay)
        except _Abort as exc:
            print(f"harness error: {exc}", file=sys.stderr)
            return 2
        if discs:
            for d in discs:
                print(f"  [{d.cls}] {d.bucket}: {d.msg}")
            print(f"VIOLATION property={prop} replay={args.replay}")
            return 1
        print(f"replay {args.replay}: property {prop} holds on this case")
        return 0

    tier = args.tier
    nworkers = args.workers or (spec.quick_workers if tier == "quick" else spec.thorough_workers)
    budget = args.cases or (spec.quick_cases if tier == "quick" else spec.thorough_cases)
    time_budget = spec.quick_time if tier == "quick" else spec.thorough_time

    violations: list[dict[str, Any]] = []  # {bucket,msg,replay}

    # ---- committed regression cases first -------------------------------------------
    reg_files = sorted(glob.glob(os.path.join(VERIF, "regressions", prop, "*.json")))
    reg_failed = 0
    for path in reg_files:
        try:
            discs = _replay_file(eng, prop, path)
        except _Abort as exc:
            print(f"harness error replaying {path}: {exc}", file=sys.stderr)
            return 2
        if discs:
            reg_failed += 1
            rel = os.path.relpath(path, VERIF)
            violations.append({"bucket": discs[0].bucket, "msg": discs[0].msg, "replay": rel, "cls": discs[0].cls})

    # ---- known findings: probe, print, exclude --------------------------------------
    known = _read_known(prop)
    known_patterns = [k["bucket"] for k in known if k["bucket"]]
    known_lines = []
    for k in known:
        still = True
        if k["probe"]:
            try:
                discs = _replay_file(eng, prop, os.path.join(VERIF, k["probe"]))
            except _Abort as exc:
                print(f"harness error replaying {k['probe']}: {exc}", file=sys.stderr)
                return 2
            still = any(fnmatch.fnmatchcase(d.bucket, k["bucket"]) for d in discs)
            for d in discs:
                if not _is_excluded(d.bucket, known_patterns):
                    violations.append({"bucket": d.bucket, "msg": d.msg, "replay": k["probe"], "cls": d.cls})
        if still:
            known_lines.append(f"KNOWN-FINDING: property={prop} {k['text']}")
    # regression failures that are known findings are not violations
    violations = [v for v in violations if not _is_excluded(v["bucket"], known_patterns)]

    # ---- workers --------------------------------------------------------------------
    scratch = tempfile.mkdtemp(prefix=f"verif-{prop}-")
    procs = []
    ctx = multiprocessing.get_context("fork")
    for w in range(nworkers):
        out = os.path.join(scratch, f"w{w}.json")
        p = ctx.Process(target=_worker, args=(prop, tier, w, nworkers, seed, budget, time_budget, known_patterns, out))
        p.start()
        procs.append((p, out))
    hard_limit = time_budget * 2.5 + 120
    if os.environ.get("VERIF_SCREEN"):
        hard_limit = time_budget + 45  # (tools/automut.py: a mutant that hangs a worker is not worth six minutes)
    results = []
    harness_errors = []
    for p, out in procs:
        p.join(max(1.0, hard_limit - (time.monotonic() - t0)))
        if p.is_alive():
            p.kill()
            p.join()
            harness_errors.append(f"worker killed by watchdog after {hard_limit:.0f}s")
            continue
        if not os.path.exists(out):
            harness_errors.append(f"worker exited with code {p.exitcode} without a result")
            continue
        r = json.load(open(out))
        if r.get("status") != "ok":
            harness_errors.append(r.get("error", "unknown"))
        else:
            results.append(r)
    shutil.rmtree(scratch, ignore_errors=True)

    if harness_errors:
        for e in harness_errors[:3]:
            print(f"harness error: {e}", file=sys.stderr)
        return 2

    # ---- merge ----------------------------------------------------------------------
    from harness.core import canon, chash

    nontrivial: set[str] = set()
    labels: Counter[str] = Counter()
    excluded_hits: Counter[str] = Counter()
    samples: list[Any] = []
    evaluations = generated = exhaustive_n = 0
    best: dict[str, dict[str, Any]] = {}
    notes: list[str] = []
    for r in results:
        evaluations += r["evaluations"]
        generated += r["generated"]
        exhaustive_n += r.get("exhaustive_n", 0)
        nontrivial.update(r["nontrivial"])
        labels.update(r["labels"])
        excluded_hits.update(r["excluded_hits"])
        notes.extend(r.get("notes", []))
        for s in r["samples"]:
            if len(samples) < 5:
                samples.append(s)
        for f in r["found"]:
            cur = best.get(f["bucket"])
            if cur is None or len(canon(f["case"])) < len(canon(cur["case"])):
                best[f["bucket"]] = f
    already = {v["bucket"] for v in violations}
    for b in sorted(best):
        f = best[b]
        if b in already:
            continue
        d = os.path.join(VERIF, "replays", prop)
        os.makedirs(d, exist_ok=True)
        path = os.path.join(d, chash(f["case"]) + ".json")
        with open(path, "w") as fh:
            json.dump({"property": prop, "bucket": b, "cls": f["cls"], "msg": f["msg"], "case": f["case"]},
                      fh, sort_keys=True, indent=1, default=repr)
        violations.append({"bucket": b, "msg": f["msg"], "replay": os.path.relpath(path, VERIF), "cls": f["cls"]})

    for line in known_lines:
        print(line)
    for v in violations:
        print(f"  [{v['cls']}] {v['bucket']}: {v['msg']}")
        print(f"VIOLATION property={prop} replay={v['replay']}")

    wall = time.monotonic() - t0
    if not samples:
        # no non-trivial sample survived: still show what cases look like
        samples = [{"note": "no non-trivial sample recorded"}]
    evidence = {
        "property_id": prop,
        "tier": tier,
        "seed": seed,
        "level": "exploration",
        "coverage": {
            "evaluations": evaluations,
            "generated": generated,
            "distinct_nontrivial": len(nontrivial),
            "rule": spec.rule,
            "samples": samples,
            "labels": dict(sorted(labels.items())),
            "bounds": spec.bounds.get(tier, "") if isinstance(spec.bounds, dict) else spec.bounds,
            "workers": nworkers,
            "case_budget_per_worker": budget,
            "exhaustive": bool(exhaustive_n) and spec.exhaustive_only,
            "exhaustive_enumerated": exhaustive_n,
            "excluded_known": dict(excluded_hits),
            "regressions_replayed": len(reg_files),
            "regressions_failed": reg_failed,
            "timed_out_workers": sum(1 for r in results if r.get("timed_out")),
            "notes": notes[:5],
            "violations": [{"bucket": v["bucket"], "msg": v["msg"][:500], "replay": v["replay"]} for v in violations],
        },
        "assumptions": spec.assumptions,
        "wall_s": round(wall, 2),
        "violations": len(violations),
    }
    if not args.no_evidence:
        os.makedirs(os.path.join(VERIF, "evidence"), exist_ok=True)
        with open(os.path.join(VERIF, "evidence", f"{prop}.json"), "w") as fh:
            json.dump(evidence, fh, indent=1, sort_keys=True, default=repr)
    print(
        f"{prop} {tier} seed={seed}: {evaluations} executions ({generated} generated, {exhaustive_n} enumerated), "
        f"{len(nontrivial)} distinct non-trivial, {len(violations)} violation(s), {wall:.1f}s",
        file=sys.stderr,
    )
    if hasattr(eng, "cleanup"):
        eng.cleanup()
    return 1 if violations else 0


if __name__ == "__main__":
    sys.exit(main())
