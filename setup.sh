#!/bin/bash
# Offline setup: make sure hypothesis is importable by /venv/bin/python (it is pre-installed there;
# fall back to the offline wheelhouse into /verif/.deps).
cd "$(dirname "$0")" || exit 1
if ! PYTHONPATH="$PWD/.deps" /venv/bin/python -c 'import hypothesis, anyio, trio, yaml, click' 2>/dev/null; then
  /venv/bin/python -m pip install -q --no-index --find-links /opt/veriftools/wheels --target "$PWD/.deps" hypothesis || exit 1
fi
PYTHONPATH="$PWD/.deps" /venv/bin/python -c 'import hypothesis, asphalt.core; print("setup ok: hypothesis", hypothesis.__version__)'
